"""C02 - no feasible behaviour is dropped during exploration (engine-sim; shares the run function of C01)."""

from __future__ import annotations

import os
import sys

sys.path.insert(0, os.path.dirname(os.path.dirname(os.path.abspath(__file__))))

from checks.c01 import C01Check  # noqa: E402


class C02Check(C01Check):
    property_id = "C02"
    name = "c02-engine-sim"
    oracle_prefixes = ("ENGINE:input-uncovered", "ENGINE:pruned-feasible")
    rename = {"ENGINE:input-uncovered": "C02:input-uncovered", "ENGINE:pruned-feasible": "C02:pruned-feasible"}
    rule = ("(an input contained only in paths that all end differently from the reference execution also counts as uncovered: `behaviour-in-no-path`) same generated worlds as C01 with the branching-solver `unknown` rate swept over 0 / 3% / 30% / 100% and --loop 1-4. "
            "Coverage oracle: every generated concrete input (boundary, random, constants harvested from the code +-1) on which "
            "the reference EVM terminates must satisfy the constraints of >=1 reported path (membership decided by concrete "
            "rewriting under real keccak / exact arithmetic, solver fallback), unless the exploration was flagged (loop bound "
            "recorded, depth/width warning, path cap) or a stuck path contains the input. Pruning oracle: every (path "
            "conditions, branch condition) pair the engine discarded with verdict unsat is re-solved under the standard "
            "interpretation; a model is a violation. distinct = distinct (world hash, path list, query count); non-trivial = "
            ">=2 reported paths or >=1 injected unknown, and >=1 input checked for coverage")
    kwargs = {"n_sigmas": 8}

    def run_one(self, ch, keep_log=False, **kw):
        res = super().run_one(ch, keep_log=keep_log, **kw)
        p = res["probes"]
        res["nontrivial"] = bool(res["nontrivial"] or False) and (p.get("sigma_covered", 0) + p.get("uncovered_but_flagged", 0)) >= 1
        return res


def factory():
    return C02Check()


if __name__ == "__main__":
    from hsim.runner import main_for

    sys.exit(main_for(factory))
