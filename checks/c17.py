"""C17 - solver subprocess lifecycle is safe under every schedule (exec-sim).

Real code under test: halmos.processes (PopenFuture, PopenExecutor, ExecutorRegistry) and
halmos.solve.solve_low_level / SolverOutput.from_result, run unmodified on baton-passed real
threads with a simulated process table, psutil, clock and thread pool.
"""

from __future__ import annotations

import os
import shutil
import sys
import tempfile

sys.path.insert(0, os.path.dirname(os.path.dirname(os.path.abspath(__file__))))

from hsim import shims  # noqa: E402
from hsim.choices import Choices  # noqa: E402
from hsim.sched import INF, Sim  # noqa: E402
from hsim.seams import Seams  # noqa: E402

GRACE = 1.0  # simulated seconds a correct shutdown may need (terminate, 0.5 s grace, kill)

DURATIONS = [0.001, 0.3, 5.0, 100.0, INF]
TIMEOUTS = [None, 1.0, 10.0]
REPLIES = [
    ("unsat\n", "", 0),
    ("sat\n(model\n  (define-fun p_x_uint256_abc1234_00 () (_ BitVec 256) #x2a)\n)\n", "", 0),
    ("unknown\n", "", 0),
    ("", "Segmentation fault\n", -11),
    ("(error \"line 1: unsupported\")\n", "", 1),
    ("unsat\n", "", 3),
]


class C17Check:
    property_id = "C17"
    name = "c17-exec-sim"
    level = "exploration"
    rule = ("each run = one seeded workload over halmos.processes/solve_low_level (1-3 jobs; per job: "
            "simulated duration, reply, exit code, time limit, 0-2 child processes, SIGTERM-deaf or not, "
            "spawn OSError; client tasks submitting / waiting / shutting down with wait=False|True or "
            "via ExecutorRegistry / from a done-callback / wait=True blocked while another client calls wait=False; late submit) under one seeded schedule "
            "(yield points at every thread/lock/event/future/Popen/psutil call plus optional line-level "
            "pre-emption inside processes.py and solve.py). distinct = distinct (workload-shape hash, "
            "event-log digest); non-trivial = at least 2 tasks interleaved (>=1 context switch chosen "
            "among >=2 runnable tasks) or >=1 fault fired")
    assumptions = [
        "threads are real, their interleaving is decided by the simulator at yield points; stdlib internals are not pre-empted",
        "ThreadPoolExecutor used by shutdown(wait=False) is a behavioural model (lazy workers, FIFO, callbacks in completing thread)",
        "process table / psutil / clock are simulated: SIGTERM takes term_delay, SIGKILL is immediate, a naturally exiting parent takes its helpers with it, a killed parent orphans them",
        "a correct shutdown needs at most GRACE=1.0 simulated seconds after it returned for racing job threads to notice it",
        "fair workloads only: a job that hangs without a time limit is generated only if a shutdown is certain to be requested (unconditional shutdown client, or 'callback' mode where the first job completing in any way - result, time limit, spawn error - requests it)",
    ]
    components = {
        "real": ["halmos.processes (all of it)", "halmos.solve.solve_low_level, dump, SolverOutput.from_result",
                 "concurrent.futures.Future (stdlib)", "halmos.config.Config"],
        "stub": ["thread scheduling (baton)", "ThreadPoolExecutor (model)", "subprocess.Popen / psutil (simulated process table)",
                 "time.time / sleep (simulated clock)", "solver binary (scripted reply)"],
    }
    tiers = {
        "quick": {"budget_s": 40, "runs_per_fork": 25, "run_timeout": 60, "shrink_budget": 40},
        "thorough": {"budget_s": 600, "runs_per_fork": 25, "run_timeout": 60, "shrink_budget": 120},
    }

    def prepare(self):
        import halmos.processes  # noqa: F401
        import halmos.solve  # noqa: F401
        import halmos.config  # noqa: F401

    # ------------------------------------------------------------------
    def run_one(self, ch: Choices, keep_log: bool = False, **_):
        import halmos.processes as hp
        import halmos.solve as hs
        from halmos.config import ConfigSource, default_config
        from halmos.sevm import SMTQuery

        if ch.chance(0.06, "mode.mainsig"):
            return self.run_main_signal(ch, keep_log)
        # ---------------- swarm / workload (drawn first so that it shrinks last)
        n_jobs = ch.int(1, 3, "n_jobs")
        preempt_k = ch.choose([0, 0, 4, 12], "preempt_k")
        shut_kind = ch.choose(["nowait", "none", "wait", "registry", "callback", "nowait+wait", "wait||nowait", "signal"], "shut_kind")
        shut_delay = ch.choose([0.0, 0.0005, 0.2, 2.0, 50.0], "shut_delay")
        late_submit = ch.chance(0.5, "late_submit")
        jobs = []
        for j in range(n_jobs):
            mode = ch.choose(["direct", "solve"], f"j{j}.mode")
            timeout = ch.choose(TIMEOUTS, f"j{j}.timeout")
            dur = ch.choose(DURATIONS, f"j{j}.dur")
            reply = ch.pick(len(REPLIES), f"j{j}.reply")
            delay = ch.choose([0.0, 0.0005, 0.2, 3.0], f"j{j}.delay")
            nchild = ch.choose([0, 0, 1, 2], f"j{j}.nchild")
            children = []
            for c in range(nchild):
                children.append(shims.ChildPlan(
                    lifetime=ch.choose([INF, 0.0002, 0.25, 20.0], f"j{j}.c{c}.life"),
                    ignores_term=ch.chance(0.3, f"j{j}.c{c}.deaf"),
                    term_delay=ch.choose([0.01, 0.0, 0.4], f"j{j}.c{c}.td"),
                    die_when_listed=ch.chance(0.2, f"j{j}.c{c}.dwl"),
                    die_when_checked=ch.chance(0.2, f"j{j}.c{c}.dwc")))
            deaf = ch.chance(0.25, f"j{j}.deaf")
            term_delay = ch.choose([0.01, 0.0, 0.4, 0.6], f"j{j}.td")
            spawn_err = ch.chance(0.05, f"j{j}.oserr")
            jobs.append(dict(mode=mode, timeout=timeout, dur=dur, reply=reply, delay=delay,
                             children=children, deaf=deaf, term_delay=term_delay, spawn_err=spawn_err))
        glitch = ch.choose([None, None, None, "IndexError", "AccessDenied"], "psutil_glitch")
        glitch_n = ch.int(1, 3, "psutil_glitch_n")
        glitch_site = ch.choose(["children", "ctor"], "psutil_glitch_site")
        # a hang without a time limit is only a fair workload if somebody will cancel it
        forced_shutdown = shut_kind in ("nowait", "registry", "callback", "nowait+wait", "wait||nowait", "signal")
        sig_steps = ch.choose([ch.pick(40, "sig_steps.a"), ch.pick(400, "sig_steps.b")], "sig_steps")
        sig_second = ch.choose([None, None, ch.pick(40, "sig_second.d")], "sig_second")
        for jb in jobs:
            if jb["dur"] == INF and jb["timeout"] is None and not forced_shutdown:
                jb["timeout"] = 10.0
        # "callback": the shutdown is requested by the first job that completes in any way (result, time
        # limit, spawn error), so at least one job has to complete without being cancelled
        if shut_kind == "callback" and all(jb["dur"] == INF and jb["timeout"] is None and not jb["spawn_err"]
                                           for jb in jobs):
            jobs[0]["dur"] = 0.3

        shape = repr((n_jobs, shut_kind, shut_delay, late_submit,
                      [(jb["mode"], jb["timeout"], jb["dur"], jb["reply"], jb["delay"], len(jb["children"]),
                        jb["deaf"], jb["spawn_err"]) for jb in jobs]))

        tmpdir = tempfile.mkdtemp(prefix="c17-", dir="/dev/shm" if os.path.isdir("/dev/shm") else None)
        sim = Sim(ch, max_steps=20000, preempt_k=preempt_k,
                  trace_files=("halmos/processes.py", "halmos/solve.py"), keep_log=keep_log)
        plans = {}

        def factory(cmd):
            key = str(cmd[-1]).rsplit("/", 1)[-1]
            jb = jobs[int(key.split(".")[0].lstrip("job"))]
            so, se, rc = REPLIES[jb["reply"]]
            return shims.ProcPlan(duration=jb["dur"], stdout=so, stderr=se, rc=rc, ignores_term=jb["deaf"],
                                  term_delay=jb["term_delay"], children=list(jb["children"]),
                                  spawn_error=OSError(11, "Resource temporarily unavailable") if jb["spawn_err"] else None)

        seams = Seams()
        violations = []
        outcomes = {}
        st = {"shutdown_returned_at": None, "shutdown_started_at": None}
        try:
            shims.activate(sim, factory)
            if glitch:
                shims.PROCS.glitch = {"kind": glitch, "left": glitch_n, "site": glitch_site}
            seams.attach(only=("halmos.processes", "halmos.solve"))
            base = default_config().with_overrides(ConfigSource.command_line, solver_command="simsolver", verbose=0)
            executor = hp.PopenExecutor()
            hp.ExecutorRegistry().register(executor)
            solving_ctx = hs.SolvingContext(dump_dir=hs.Path(tmpdir), executor=executor)
            futures = {}
            cb_counts = {}
            delivered_at = {}

            def do_shutdown(kind):
                st["shutdown_started_at"] = sim.now if st["shutdown_started_at"] is None else st["shutdown_started_at"]
                sim.emit("shutdown-call", kind=kind)
                try:
                    if kind == "registry":
                        hp.ExecutorRegistry().shutdown_all()
                    elif kind == "wait":
                        executor.shutdown(wait=True)
                    else:
                        executor.shutdown(wait=False)
                except Exception as e:  # noqa: BLE001 - judged below: a raising shutdown has still "returned"
                    st["shutdown_raised"] = type(e).__name__
                    sim.emit("shutdown-raised", kind=kind, exc=type(e).__name__)
                if st["shutdown_returned_at"] is None:
                    st["shutdown_returned_at"] = sim.now
                sim.emit("shutdown-returned", kind=kind)

            def do_wait_shutdown():
                # a waiting shutdown promises nothing about running solvers, so its return is not the reference instant
                sim.emit("shutdown-call", kind="wait(concurrent)")
                try:
                    executor.shutdown(wait=True)
                except Exception as e:  # noqa: BLE001
                    sim.emit("shutdown-raised", kind="wait(concurrent)", exc=type(e).__name__)
                sim.emit("shutdown-returned", kind="wait(concurrent)")

            class SimExit(BaseException):
                """what sys.exit() in halmos' signal handler raises on the interrupted thread"""

            def on_signal():
                # halmos.__main__.on_signal: on_exit() -> ExecutorRegistry().shutdown_all(), then sys.exit()
                st["signal_delivered"] = True
                do_shutdown("registry")
                raise SimExit()

            def job_client(j):
                try:
                    _job_client(j)
                except SimExit:
                    out = outcomes.setdefault(j, {"mode": jobs[j]["mode"]})
                    out["interrupted"] = True
                    out["returned"] = True

            def _job_client(j):
                jb = jobs[j]
                if jb["delay"]:
                    sim.sleep(jb["delay"], "client.delay")
                out = {"mode": jb["mode"]}
                outcomes[j] = out
                if jb["mode"] == "direct":
                    fut = hp.PopenFuture(["simsolver", f"{tmpdir}/job{j}.smt2"], timeout=jb["timeout"])
                    cb_counts[j] = 0

                    def cb(f, j=j):
                        cb_counts[j] += 1
                        delivered_at.setdefault(j, sim.now)
                        if shut_kind == "callback" and st["shutdown_started_at"] is None:
                            do_shutdown("nowait")

                    fut.add_done_callback(cb)
                    futures[j] = fut
                    submitted_before = st["shutdown_returned_at"] is not None
                    try:
                        executor.submit(fut)
                    except hp.ShutdownError:
                        out["submit"] = "ShutdownError"
                        return
                    except Exception as e:  # noqa: BLE001 - a job refused with another exception is an outcome, not a harness failure
                        out["submit"] = "raised:" + type(e).__name__
                        return
                    out["submit"] = "accepted"
                    out["accepted_after_shutdown_returned"] = submitted_before
                    try:
                        out["result"] = fut.result()
                    except BaseException as e:  # noqa: BLE001
                        if type(e).__name__ in ("SimAbort", "SimExit"):
                            raise
                        out["raised"] = type(e).__name__
                    out["returned"] = True
                else:
                    args = base.with_overrides(ConfigSource.command_line,
                                               solver_timeout_assertion=jb["timeout"] or 0)
                    q = SMTQuery("(declare-fun x () (_ BitVec 8))\n(assert (= x #x2a))", [])
                    pctx = hs.PathContext(args=args, path_id=f"job{j}", solving_ctx=solving_ctx, query=q)
                    submitted_before = st["shutdown_returned_at"] is not None
                    try:
                        so = hs.solve_low_level(pctx)
                    except hp.ShutdownError:
                        out["submit"] = "ShutdownError"
                        return
                    except BaseException as e:  # noqa: BLE001
                        if type(e).__name__ in ("SimAbort", "SimExit"):
                            raise
                        out["submit"] = "accepted"
                        out["raised"] = type(e).__name__
                        out["returned"] = True
                        # the job has completed (with an exception): in "callback" mode that completion is
                        # what requests the shutdown, exactly as the done-callback of a direct job does
                        if shut_kind == "callback" and st["shutdown_started_at"] is None:
                            do_shutdown("nowait")
                        return
                    out["submit"] = "accepted"
                    out["accepted_after_shutdown_returned"] = submitted_before
                    out["solver_output"] = (str(so.result), so.returncode)
                    out["returned"] = True
                    if shut_kind == "callback" and st["shutdown_started_at"] is None:
                        do_shutdown("nowait")

            def shutdown_client():
                if shut_delay:
                    sim.sleep(shut_delay, "client.delay")
                if shut_kind in ("nowait", "registry", "wait"):
                    do_shutdown(shut_kind)
                elif shut_kind == "nowait+wait":
                    do_shutdown("nowait")
                    do_shutdown("wait")
                elif shut_kind == "wait||nowait":
                    # one client is blocked in shutdown(wait=True) when another one asks for a forced shutdown
                    w = shims.SimThread(target=lambda: do_wait_shutdown(), name="client-waiter")
                    w._kind = "client"
                    w.start()
                    sim.sleep(ch.choose([0.0005, 0.3, 5.0], "shut_gap"), "client.delay")
                    do_shutdown("nowait")
                    w.join()
                elif shut_kind == "signal":
                    # client0 plays the main thread: the handler runs on its stack, wherever it is (fallback: it finished before)
                    sim.block("client.wait-signal", lambda: st.get("signal_delivered") or outcomes.get(0, {}).get("returned")
                              or str(outcomes.get(0, {}).get("submit", "")).startswith(("ShutdownError", "raised:")))
                    if not st.get("signal_delivered"):
                        do_shutdown("nowait")
                    else:
                        sim.block("client.wait-shut", lambda: st["shutdown_returned_at"] is not None)
                elif shut_kind == "callback":
                    # the callback does it; make sure it happens at all
                    sim.block("client.wait-cb", lambda: st["shutdown_returned_at"] is not None
                              or all(outcomes.get(j, {}).get("returned") or str(outcomes.get(j, {}).get("submit", "")).startswith(("ShutdownError", "raised:"))
                                     for j in range(n_jobs)))
                    if st["shutdown_started_at"] is None:
                        do_shutdown("nowait")
                    else:
                        sim.block("client.wait-shut", lambda: st["shutdown_returned_at"] is not None)
                else:
                    return
                if late_submit:
                    fut = hp.PopenFuture(["simsolver", f"{tmpdir}/job0.late.smt2"], timeout=1.0)
                    try:
                        executor.submit(fut)
                        outcomes["late"] = "accepted"
                    except hp.ShutdownError:
                        outcomes["late"] = "ShutdownError"

            def main():
                ts = []
                for j in range(n_jobs):
                    t = shims.SimThread(target=job_client, args=(j,), name=f"client{j}")
                    t._kind = "client"
                    ts.append(t)
                t = shims.SimThread(target=shutdown_client, name="shutter")
                t._kind = "client"
                ts.append(t)
                for t in ts:
                    t.start()
                for t in ts:
                    t.join()

            if shut_kind == "signal":
                sim.set_interrupt("client0", sig_steps, on_signal)
                if sig_second is not None:
                    # an impatient second Ctrl-C: it can land while the first handler is still shutting down
                    sim.set_interrupt("client0", sig_steps + sig_second, on_signal)
            sim.run(main)

            # ---------------- oracles over the recorded history
            end = sim.now
            table = shims.PROCS.procs
            t_ret = st["shutdown_returned_at"]

            if sim.outcome == "deadlock":
                stuck = sorted({x.split(":", 1)[1] for x in sim.deadlock_info if not x.startswith(("main", "client", "shutter")) or True})
                who = sorted({x.split(":", 1)[0].rstrip("0123456789") for x in sim.deadlock_info})
                kinds = sorted({x.split(":", 1)[1] for x in sim.deadlock_info if x.split(":")[0].startswith(("T", "Pool"))}) or stuck
                violations.append(dict(oracle="C17:waiter-stuck", disc="+".join(kinds)[:80],
                                       detail=f"no task runnable and no timer pending; parked: {sim.deadlock_info}; "
                                              f"alive pids: {shims.PROCS.alive_pids()}; shutdown returned at {t_ret}"))
            for name, et, text, kind, tb in sim.task_errors:
                if kind == "client":
                    raise RuntimeError(f"harness client task {name} failed: {et}: {text}\n{tb}")
                violations.append(dict(oracle="C17:thread-exception", disc=et,
                                       detail=f"task {name} died with {et}: {text}"))
            if sim.outcome in ("done", "deadlock"):
                if t_ret is not None:
                    for p in table.values():
                        lived_until = p.exit_at
                        par = p.parent
                        if par is not None and par.killed_by is None:
                            lived_until = min(lived_until, par.exit_at)
                        if par is not None and par.enum_failed:
                            continue  # halmos was never told about this helper (injected enumeration failure)
                        if lived_until > t_ret + GRACE and p.start_at <= end:
                            role = "child" if par is not None else "solver"
                            started = "started-after-return" if p.start_at > t_ret else (
                                "started-during-shutdown" if p.start_at >= (st["shutdown_started_at"] or 0) else "started-before")
                            if st.get("shutdown_raised"):
                                started += ":shutdown-raised-" + st["shutdown_raised"]
                            violations.append(dict(
                                oracle="C17:proc-alive-after-shutdown", disc=f"{role}:{started}",
                                detail=f"pid {p.pid} ({role}, started at {p.start_at:.6f}) still alive {GRACE}s after shutdown "
                                       f"returned at {t_ret:.6f} (exits at {lived_until})"))
                            break
                if outcomes.get("late") == "accepted":
                    violations.append(dict(oracle="C17:submit-after-shutdown", disc="late-submit-accepted",
                                           detail="submit() issued after shutdown() had returned was accepted"))
            if sim.outcome == "done":
                for j, out in outcomes.items():
                    if j == "late" or out.get("submit") != "accepted":
                        continue
                    if out.get("interrupted"):
                        # the waiter was unwound by the signal handler's sys.exit(): it did not see a result; the job itself is
                        # still covered by the process-table and callback-count oracles
                        if jobs[j]["mode"] == "direct" and cb_counts.get(j) != 1:
                            violations.append(dict(oracle="C17:result-not-once", disc=f"callbacks={cb_counts.get(j)}:interrupted",
                                                   detail=f"job {j}: done-callback ran {cb_counts.get(j)} times"))
                        continue
                    jb = jobs[j]
                    so, se, rc = REPLIES[jb["reply"]]
                    procs = [p for p in table.values() if p.parent is None and str(p.cmd[-1]).endswith(f"job{j}.smt2")]
                    p = procs[0] if procs else None
                    natural = p is not None and p.killed_by is None and p.exit_at != INF
                    timed_out = any(e[2] == "communicate-timeout" and p is not None and e[3]["pid"] == p.pid for e in sim.events)
                    if jb["mode"] == "direct" and timed_out and j in delivered_at and not p.enum_failed \
                            and p.exit_at > delivered_at[j] and not any(q.parent is p and q.enum_failed for q in table.values()):
                        # a job over its time limit is cleaned up *before* its outcome is published: whoever waits on the job (or
                        # on shutdown(wait=True)) may rely on the solver being gone when the wait returns
                        violations.append(dict(oracle="C17:proc-alive-at-delivery", disc="timeout",
                                               detail=f"job {j}: result delivered at {delivered_at[j]:.6f} after the time limit expired, "
                                                      f"but solver pid {p.pid} lives until {p.exit_at}"))
                    if jb["mode"] == "direct":
                        if cb_counts.get(j) != 1:
                            violations.append(dict(oracle="C17:result-not-once", disc=f"callbacks={cb_counts.get(j)}",
                                                   detail=f"job {j}: done-callback ran {cb_counts.get(j)} times"))
                        if not out.get("returned"):
                            violations.append(dict(oracle="C17:waiter-stuck", disc="result-never-returned",
                                                   detail=f"job {j}: result() never returned"))
                        if natural and not timed_out and "result" in out and tuple(out["result"]) != (so, se, rc):
                            violations.append(dict(oracle="C17:wrong-result", disc="direct",
                                                   detail=f"job {j}: delivered {out['result']!r}, process produced {(so, se, rc)!r}"))
                        if timed_out and out.get("raised") != "TimeoutExpired":
                            violations.append(dict(oracle="C17:timeout-not-reported", disc="direct",
                                                   detail=f"job {j}: time limit expired but result() gave {out}"))
                    else:
                        res = out.get("solver_output")
                        if res is None:
                            continue
                        word = so.split("\n", 1)[0]
                        if res[0] in ("sat", "unsat"):
                            legit = natural and not timed_out and word == res[0]
                            if not legit:
                                disc = "timeout-as-" + res[0] if timed_out or (jb["timeout"] and jb["dur"] > jb["timeout"]) else "unfounded-" + res[0]
                                violations.append(dict(oracle="C17:timeout-as-unsat" if timed_out else "C17:wrong-result",
                                                       disc=disc,
                                                       detail=f"job {j}: solve_low_level returned {res} but the process "
                                                              f"{'timed out' if timed_out else 'was killed or printed ' + repr(word)}"))
                        if timed_out and res != ("unknown", 124):
                            violations.append(dict(oracle="C17:timeout-as-unsat", disc=f"timeout-gives-{res[0]}",
                                                   detail=f"job {j}: time limit expired but solve_low_level returned {res}"))
                        if natural and not timed_out and word in ("sat", "unsat", "unknown") and res[0] != word:
                            violations.append(dict(oracle="C17:wrong-result", disc="solve",
                                                   detail=f"job {j}: process printed {word!r}, solve_low_level returned {res}"))

            nontrivial = sim.switches >= 1 or bool(sim.fault_counts)
            sim.probe("shutdown_raced_submit", int(t_ret is not None and any(
                o.get("submit") == "accepted" and o.get("accepted_after_shutdown_returned") is False
                for k, o in outcomes.items() if k != "late")))
            for k, o in outcomes.items():
                if k != "late" and o.get("submit") == "ShutdownError":
                    sim.probe("submit_refused")
            if any(e[2] == "communicate-timeout" for e in sim.events):
                sim.probe("time_limit_expired")
            if any(e[2] == "sigkill" for e in sim.events):
                sim.probe("sigkill_sent")
            if sim.outcome == "deadlock":
                sim.probe("deadlock")
            # de-duplicate signatures within a run
            seen = set()
            uniq = []
            for v in violations:
                s = (v["oracle"], v["disc"])
                if s not in seen:
                    seen.add(s)
                    uniq.append(v)
            res = dict(
                violations=uniq,
                inconclusive="step-cap" if sim.outcome == "step-cap" else None,
                faults=sim.fault_counts, probes=sim.probe_counts, digest=sim.digest(), shape=shape,
                nontrivial=nontrivial, sim_seconds=sim.now, steps=sim.steps,
                descriptor=dict(jobs=[{k: (str(v) if k == "children" else v) for k, v in jb.items()} for jb in jobs],
                                shutdown=shut_kind, shutdown_delay=shut_delay, late_submit=late_submit,
                                preempt_k=preempt_k, outcome=sim.outcome, switches=sim.switches,
                                outcomes={str(k): (v if isinstance(v, str) else {a: str(b) for a, b in v.items()}) for k, v in outcomes.items()}),
            )
            if keep_log:
                res["log"] = sim.log
            return res
        finally:
            seams.detach()
            shims.deactivate()
            hp.ExecutorRegistry._instance = None
            shutil.rmtree(tmpdir, ignore_errors=True)


def _run_main_signal(self, ch, keep_log=False):
    """run-sim variant of the shutdown-by-signal workload: halmos' real _main on a project whose only test has a failing path and
    a solver that never answers (no time limit); SIGINT / SIGTERM at a seeded scheduling point of the main thread, optionally
    with a --json-output path that cannot be written.  Oracle: once halmos has exited no solver process is left, and it does exit."""
    import json
    import shutil
    import signal as _signal

    import halmos.__main__ as hm

    from checks import c05
    from hsim import runsim as R

    here = os.path.dirname(os.path.dirname(os.path.abspath(__file__)))
    os.environ["PATH"] = os.path.join(here, "tools", "bin") + ":" + os.environ["PATH"]
    nleaves = ch.int(1, 2, "ms.leaves")
    leaves = [dict(outcome="panic", guard="eq", reply="hang") for _ in range(nleaves)]
    cj, _bom = c05.build_contract(leaves, "success")
    root = tempfile.mkdtemp(prefix="c17proj-", dir="/dev/shm" if os.path.isdir("/dev/shm") else None)
    signame = ch.choose(["SIGINT", "SIGTERM"], "ms.signal")
    steps = ch.choose([ch.pick(80, "ms.steps.a"), ch.pick(1500, "ms.steps.b")], "ms.steps")
    second = ch.choose([None, None, ch.pick(60, "ms.second.d")], "ms.second")
    json_mode = ch.choose(["none", "ok", "missing-dir"], "ms.json")
    threads = ch.choose([1, 2], "ms.threads")
    handlers, state = {}, {"delivered": 0}

    class SignalProxy:
        def __getattr__(self, name):
            return getattr(_signal, name)

        def signal(self, signum, handler):
            handlers[int(signum)] = handler

    def deliver():
        num = int(getattr(_signal, signame))
        h = handlers.get(num)
        if h is None:
            return
        state["delivered"] += 1
        h(num, None)

    try:
        os.makedirs(root + "/out/T.sol")
        with open(root + "/out/T.sol/T.json", "w") as f:
            json.dump({k: v for k, v in cj.items() if k != "abi_dict"}, f)
        with open(root + "/foundry.toml", "w") as f:
            f.write("[profile.default]\n")
        argv = ["--root", root, "--solver-command", "simsolver", "--no-status", "--solver-threads", str(threads),
                "--solver-timeout-assertion", "0", "--solver-timeout-branching", "0", "--panic-error-codes", "0x01,0x11,0x12,0x21"]
        if json_mode == "ok":
            argv += ["--json-output", root + "/result.json"]
        elif json_mode == "missing-dir":
            argv += ["--json-output", root + "/no/such/dir/result.json"]

        def main():
            orig_signal = hm.signal
            hm.signal = SignalProxy()
            try:
                return hm._main(argv)
            finally:
                hm.signal = orig_signal

        irq = [(steps, deliver)] + ([(steps + second, deliver)] if second is not None else [])
        out = R.run_under_sim(ch, main, solver="yices", plan=lambda info: "hang", unknown_rate=1.0, max_steps=40000,
                              interrupt=irq, keep_log=keep_log)
    finally:
        shutil.rmtree(root, ignore_errors=True)
    vio = []
    if state["delivered"]:
        if out.outcome == "deadlock":
            kinds = sorted({x.split(":", 1)[1] for x in out.sim.deadlock_info})
            vio.append(dict(oracle="C17:waiter-stuck", disc="signal:" + "+".join(kinds)[:60],
                            detail=f"{signame} at step {steps} of _main: halmos never exited; parked {out.sim.deadlock_info}; "
                                   f"processes alive {out.alive_procs}"))
        elif out.outcome == "done" and out.alive_procs:
            vio.append(dict(oracle="C17:proc-alive-after-shutdown", disc="signal:main:" + json_mode,
                            detail=f"{signame} at step {steps} of _main (json output: {json_mode}): halmos has exited "
                                   f"({out.exception!r}) but solver processes are still running: {out.alive_procs}"))
    faults = dict(out.sim.fault_counts)
    if state["delivered"]:
        faults["signal_" + signame] = state["delivered"]
    res = dict(violations=vio, inconclusive=None, faults=faults,
               probes={"main_signal_runs": 1, "main_signal_delivered": int(bool(state["delivered"])),
                       "main_signal_solver_running": int(any(h for h in out.stub.history))},
               digest="mainsig:" + out.sim.digest(), shape=repr(("mainsig", nleaves, signame, json_mode, threads)),
               nontrivial=bool(state["delivered"]) and bool(out.stub.history), sim_seconds=out.sim.now, steps=out.sim.steps,
               descriptor=dict(mode="main-signal", signal=signame, steps=steps, second=second, json=json_mode, threads=threads,
                               delivered=state["delivered"], exception=repr(out.exception), queries=len(out.stub.history)))
    if keep_log:
        res["log"] = [("stdout", out.stdout[-800:])] + list(out.sim.log[-300:])
    return res


C17Check.run_main_signal = _run_main_signal


def factory():
    return C17Check()


if __name__ == "__main__":
    from hsim.runner import main_for

    sys.exit(main_for(factory))
