"""C09 - message calls are atomic and see the right context (engine-sim, call-tree worlds)."""

from __future__ import annotations

import os
import sys

sys.path.insert(0, os.path.dirname(os.path.dirname(os.path.abspath(__file__))))

from checks.c01 import C01Check  # noqa: E402

ALWAYS = {"context-field", "trace-shape", "balance", "code"}
IN_SUBFRAME = {"outcome", "halt-kind", "output", "log", "load-mismatch", "storage-slot", "store-value"}
ROLLBACK = {"load-mismatch", "storage-slot", "balance", "code"}


class C09Check(C01Check):
    property_id = "C09"
    name = "c09-engine-sim"
    oracle_prefixes = ("ENGINE:endstate-mismatch", "ENGINE:input-uncovered")
    rename = {"ENGINE:endstate-mismatch": "C09:frame", "ENGINE:input-uncovered": "C09:call-outcome-missing"}
    rule = ("call-tree worlds: up to 3 levels of generated callees called with CALL / STATICCALL / DELEGATECALL / CALLCODE "
            "(concrete and symbolic values and arguments, symbolic targets aliasing deployed accounts), CREATE / CREATE2 of "
            "generated init code; every callee writes storage / transient storage / logs and then ends in return, revert, "
            "INVALID, Panic, out-of-bounds RETURNDATACOPY, static violation or insufficient funds at a seeded point. Oracle: "
            "lock-step comparison of the whole frame tree with the reference EVM under a model of each path and generated inputs: "
            "per frame scheme/target/caller/origin/value/static flag/input data, outcome class and return data, every storage "
            "access after a failed frame (rollback), final balances (conservation) and code of all accounts. A mismatch counts "
            "for C09 if it is a context field, a trace-shape / balance / code difference, any difference inside a sub-frame, or a "
            "storage read after a failed sub-frame; in addition an input whose reference execution contains a call failing for "
            "insufficient funds must be contained in a reported path (`C09:call-outcome-missing`). distinct = distinct (world hash, path list, query count); non-trivial = the "
            "reference executed >=1 sub-frame and >=1 (path,input) pair was judged")
    bias = dict(calls=True, creates=None, value_calls=True, storage=True, transient=True, balance_reads=True, n_callees=None)
    kwargs = {"n_sigmas": 5, "check_pruned": False}

    def refine(self, v):
        if v.get("kind") == "uncovered":
            # "the call fails when the sender's balance is insufficient": an input whose reference execution contains such a
            # failed call must be in some reported path (the failing outcome may not be dropped, e.g. on a solver `unknown`)
            if "halt:insufficient" in v.get("ref_errors", []):
                v["disc"] = "insufficient-funds"
                return v
            return None
        kinds = set(v.get("kinds", []))
        if v.get("quirk") and v["quirk"] != "static_value_call_ok":
            return None
        hit = bool(kinds & ALWAYS) or bool(set(v.get("sub_kinds", [])) & IN_SUBFRAME) or (
            v.get("ref_failed_subframes", 0) > 0 and bool(kinds & ROLLBACK))
        if v.get("quirk") == "static_value_call_ok":
            hit = True
        if not hit or not v.get("ref_subframes"):
            return None
        return v

    def run_one(self, ch, keep_log=False, **kw):
        res = super().run_one(ch, keep_log=keep_log, **kw)
        res["nontrivial"] = res["probes"].get("ref_subframes", 0) >= 1 and res["probes"].get("pairs_judged", 0) >= 1
        return res


def factory():
    return C09Check()


if __name__ == "__main__":
    from hsim.runner import main_for

    sys.exit(main_for(factory))
