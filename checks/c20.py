"""C20 - tests are isolated from each other and results are deterministic (run-sim histories).

One generated contract with 2-4 check functions of the C03 grammar sharing one setUp (concrete or symbolic: the
stored value is a fresh symbol constrained in setUp).  Baseline: every test alone, in a fresh simulated process.
Histories: the same tests permuted, repeated and in subsets inside one run_contract call, two run_contract calls in
one process, and other fresh-symbol suffix streams (random / sequential / all-equal).  Every test's normalised result
must equal its solo result.
"""

from __future__ import annotations

import hashlib
import os
import sys

sys.path.insert(0, os.path.dirname(os.path.dirname(os.path.abspath(__file__))))

from checks.c03 import BYTES_LENGTHS, PANIC_SET, Case, decode_model  # noqa: E402
from evm import artifact as A  # noqa: E402
from hsim import runsim as R  # noqa: E402

VERDICT_OF_EXIT = {0: "PASS", 1: "FAIL", 2: "TIMEOUT", 3: "ERROR", 4: "ERROR", 5: "ERROR"}


def norm(case, rt_cases, r):
    """normalised TestResult: everything but symbol suffixes, timings and the particular model values"""
    if r is None:
        return None
    models = []
    for m in (r.models or []):
        statics, blen, bdata = decode_model(case, m)
        outcome = case.reference_outcome(rt_cases, case.calldata(statics, blen, bdata), sym=case.model_sym)
        models.append((bool(m.is_valid), outcome if (m.is_valid and not case.uses_hash and not case.uses_exp) else "-"))
    return (VERDICT_OF_EXIT.get(r.exitcode), r.num_models, tuple(r.num_paths or ()), r.num_bounded_loops, tuple(sorted(models)))


class C20Check:
    property_id = "C20"
    name = "c20-run-sim"
    level = "exploration"
    rule = ("each run = one generated contract with 2-4 check functions (C03 grammar: guard chains incl. constraints that pin the value "
            "stored by setUp to a constant, hashes, mul/div/mod abstractions, bytes parameters) sharing one concrete or symbolic setUp. "
            "Baseline: each test alone in a fresh simulated process. Histories, all inside one process without resetting halmos' "
            "globals: a permutation of all tests, a sequence with repetitions, a subset, two run_contract calls back to back; each "
            "under a different fresh-symbol suffix stream (random / sequential / all-equal), seeded solver latencies and thread "
            "interleavings, optional gc between tests. Oracle: the normalised TestResult of every occurrence (verdict, number of "
            "counterexamples, their validity flags and whether each valid one replays on the reference EVM, path counts, bounded-loop "
            "count) equals the solo result. distinct = distinct (contract hash, history, event-log digest); non-trivial = >= 2 tests "
            "ran in one process and >= 1 solver query was answered")
    assumptions = ["results are compared after stripping symbol suffixes, timings and concrete model values (a solver may return another model "
                   "for a renamed query); validity of each valid model is re-established on the reference EVM instead",
                   "runs in which a truthful solver reply hit the harness wall limit are inconclusive"]
    components = {
        "real": ["halmos.__main__ run_contract / run_tests / run_test / setup", "halmos.sevm (run_message copies, extend_path, branch)",
                 "halmos.mapper / logs singletons", "halmos.solve / processes"],
        "stub": ["thread scheduling", "ThreadPoolExecutor (model)", "Popen / psutil (simulated)", "clock", "uuid4", "forge"],
    }
    tiers = {
        "quick": {"budget_s": 75, "run_timeout": 120, "shrink_budget": 60},
        "thorough": {"budget_s": 900, "run_timeout": 120, "shrink_budget": 240},
    }

    def prepare(self):
        import halmos.__main__  # noqa: F401

    def run_one(self, ch, keep_log=False, **_):
        import gc

        import halmos.__main__ as hm

        if ch.chance(0.1, "mode.invannot"):
            return self.run_invariant_annotations(ch, keep_log)
        solver = "yices"  # one solver: what is compared is halmos with itself across histories
        threads = ch.choose([1, 2, 4], "sw.threads")
        layout = ch.choose(["solidity", "generic"], "sw.layout")
        gc_between = ch.chance(0.5, "sw.gc")
        n = ch.int(2, 4, "h.ntests")
        first = Case(ch, name="check_g0", light=True, store_forms=True)
        setup = (first.setup_value, first.setup_sym, first.wt)
        cases = [first] + [Case(ch, name=f"check_g{i}", setup=setup, light=True, store_forms=True) for i in range(1, n)]
        for c in cases:
            c.build()
        fns, abis = {}, []
        for c in cases:
            fns[c.sig] = c.emit_body
            abis.append(A.abi_item(c.sig, c.names))
        fns["helper()"] = first.emit_helper
        abis.append(A.abi_item("helper()"))
        if first.setup_value is not None:
            fns["setUp()"] = first.emit_setup
            abis.append(A.abi_item("setUp()"))
        rt = A.build_runtime(fns)
        cj = A.contract_json("T", "test/T.sol", rt, abis)
        bom = A.build_out_map([("T.sol", "T", cj)])
        by_sig = {c.sig: c for c in cases}
        sigs = [c.sig for c in cases]
        # history
        kind = ch.choose(["permutation", "repetition", "subset", "two_calls"], "h.kind")
        if kind == "permutation":
            seqs = [ch.shuffle(sigs, "h.perm")]
        elif kind == "repetition":
            seqs = [[ch.choose(sigs, f"h.rep{i}") for i in range(ch.int(2, 5, "h.replen"))]]
        elif kind == "subset":
            sub = [s for s in sigs if ch.chance(0.6, "h.sub")] or [sigs[-1]]
            seqs = [ch.shuffle(sub, "h.subperm")]
        else:
            seqs = [ch.shuffle(sigs, "h.p1"), ch.shuffle(sigs, "h.p2")]
        args = R.make_args(solver_threads=threads, storage_layout=layout, panic_error_codes=set(PANIC_SET),
                           default_bytes_lengths=list(BYTES_LENGTHS))

        def run(funsig_seqs, uid_mode, fresh=True):
            def main():
                out = []
                orig_rt = hm.run_test

                def run_test(ctx):
                    if gc_between:
                        gc.collect()
                    return orig_rt(ctx)

                hm.run_test = run_test
                try:
                    for fs in funsig_seqs:
                        ctx = R.make_contract_ctx(args, "T", "test/T.sol", cj, fs, bom)
                        out.append(hm.run_contract(ctx))
                finally:
                    hm.run_test = orig_rt
                return out

            return R.run_under_sim(ch, main, solver=solver, keep_log=keep_log, uid_mode=uid_mode, max_steps=120000, fresh=fresh)

        vio = []
        incon = None
        solo = {}
        nq = 0
        outs = []
        for s in sigs:
            o = run([[s]], "sequential")
            outs.append(o)
            nq += len(o.stub.history)
            if o.stub.wall_timeouts:
                incon = "truthful-solver-wall-timeout"
            res = (o.results or [[]])[0]
            solo[s] = norm(by_sig[s], rt, res[0] if res else None)
        uid_mode = ch.choose(["random", "sequential", "repeat"], "h.uid")
        oh = run(seqs, uid_mode)
        outs.append(oh)
        nq += len(oh.stub.history)
        if oh.stub.wall_timeouts:
            incon = "truthful-solver-wall-timeout"
        if oh.outcome == "deadlock":
            vio.append(dict(oracle="C20:hang", disc="deadlock", detail=str(oh.sim.deadlock_info)))
        elif incon is None and oh.results is not None:
            pos = 0
            for ci, (fs, results) in enumerate(zip(seqs, oh.results)):
                got_by_pos = list(results or [])
                if len(got_by_pos) != len(fs):
                    vio.append(dict(oracle="C20:history-dependent-result", disc="missing-results",
                                    detail=f"{len(got_by_pos)} results for {len(fs)} tests {fs}; stdout {oh.stdout[-300:]!r}"))
                    break
                for i, (s, r) in enumerate(zip(fs, got_by_pos)):
                    pos += 1
                    g = norm(by_sig[s], rt, r)
                    if g != solo[s]:
                        before = fs[:i] if ci == 0 else seqs[0] + fs[:i]
                        what = "suffix-dependent-result" if not before else "history-dependent-result"
                        vio.append(dict(
                            oracle="C20:" + what, disc=kind,
                            detail=f"{s} alone: {solo[s]}; after {before} (uid stream {uid_mode}): {g}; guards "
                                   f"{ {c.sig: [x[0] for x in c.guards] for c in cases} }; setup value {first.setup_value} symbolic {first.setup_sym}"))
                        break
                if vio:
                    break
        faults = {}
        for o in outs:
            for k, nn in o.sim.fault_counts.items():
                faults[k] = faults.get(k, 0) + nn
        faults["uid_stream_" + uid_mode] = 1
        if gc_between:
            faults["gc_between_tests"] = 1
        ntests = sum(len(fs) for fs in seqs)
        res = dict(violations=vio[:1], inconclusive=incon, faults=faults, probes={"tests_in_history": ntests, "queries": nq, "kind_" + kind: 1},
                   digest=oh.sim.digest(), shape=hashlib.sha1(rt).hexdigest()[:12] + repr(seqs), nontrivial=ntests >= 2 and nq >= 1,
                   sim_seconds=sum(o.sim.now for o in outs), steps=sum(o.sim.steps for o in outs),
                   descriptor=dict(tests={c.sig: [g[0] for g in c.guards] for c in cases}, setup=(first.setup_value, first.setup_sym),
                                   history=seqs, kind=kind, uid_mode=uid_mode, solo={k: str(v) for k, v in solo.items()}))
        if keep_log:
            res["log"] = [("stdout", oh.stdout[-1500:]), ("code", rt.hex())]
        return res


def _run_invariant_annotations(self, ch, keep_log=False):
    """two invariant tests of one contract that differ only in a function-level `@custom:halmos --loop N` annotation, over a
    target whose mutator loops: each test's result must be the same alone, first or second (options of one test must not leak into
    what is explored for the other)"""
    import halmos.__main__ as hm

    from checks.c10 import Scenario

    sc = Scenario(ch, force_kind="inv_loop")
    other_loop = ch.choose([l for l in (1, 2, 3, 4, 6) if l != sc.loop], "ia.loop")
    fns = dict(sc.fns)
    fns["invariant_v2()"] = sc.fns[sc.sig]
    abis = list(sc.abis) + [A.abi_item("invariant_v2()")]
    rt = A.build_runtime(fns)
    cj = A.contract_json("T", "test/T.sol", rt, abis, devdoc_methods={"invariant_v2()": {"custom:halmos": f"--loop {other_loop}"}})
    bom = A.build_out_map([("T.sol", "T", cj)] + sc.extra_artifacts())
    # --loop comes from the config file here, so that the function-level annotation outranks it
    opts = dict(sc.options)
    args = R.make_args(_config_file={"loop": opts.pop("loop")}, solver_threads=ch.choose([1, 2], "ia.threads"),
                       panic_error_codes={1}, **opts)
    sigs = [sc.sig, "invariant_v2()"]

    def run(order):
        def main():
            ctx = R.make_contract_ctx(args, "T", "test/T.sol", cj, order, bom)
            return hm.run_contract(ctx)
        return R.run_under_sim(ch, main, solver="yices", keep_log=keep_log, max_steps=120000)

    def summary(r):
        return (r.exitcode, r.num_models, tuple(r.num_paths or ()), r.num_bounded_loops)

    outs, vio, incon = [], [], None
    solo = {}
    for s_ in sigs:
        o = run([s_])
        outs.append(o)
        if o.stub.wall_timeouts:
            incon = "truthful-solver-wall-timeout"
        solo[s_] = summary(o.results[0]) if o.results else None
    order = ch.shuffle(sigs, "ia.order")
    oh = run(order)
    outs.append(oh)
    if oh.stub.wall_timeouts:
        incon = "truthful-solver-wall-timeout"
    if oh.outcome == "deadlock":
        vio.append(dict(oracle="C20:hang", disc="deadlock", detail=str(oh.sim.deadlock_info)))
    elif incon is None and oh.results is not None:
        got = {r.name: summary(r) for r in oh.results}
        for i, s_ in enumerate(order):
            if got.get(s_) != solo[s_]:
                vio.append(dict(oracle="C20:history-dependent-result", disc="invariant-annotation:" + ("first" if i == 0 else "second"),
                                detail=f"{s_} alone: {solo[s_]}; in the run {order}: {got.get(s_)}; --loop {sc.loop} for invariant_v(), "
                                       f"--loop {other_loop} (annotation) for invariant_v2(); mask {sc.mask} K {sc.k}"))
                break
    faults = {}
    for o in outs:
        for k, nn in o.sim.fault_counts.items():
            faults[k] = faults.get(k, 0) + nn
    nq = sum(len(o.stub.history) for o in outs)
    res = dict(violations=vio[:1], inconclusive=incon, faults=faults, probes={"kind_invariant_annotations": 1, "queries": nq, "tests_in_history": 2},
               digest=oh.sim.digest(), shape=hashlib.sha1(rt).hexdigest()[:12] + repr((order, sc.loop, other_loop)), nontrivial=True,
               sim_seconds=sum(o.sim.now for o in outs), steps=sum(o.sim.steps for o in outs),
               descriptor=dict(mode="invariant-annotations", order=order, loop=sc.loop, other_loop=other_loop, solo={k: str(v) for k, v in solo.items()}))
    if keep_log:
        res["log"] = [("stdout", oh.stdout[-1500:])]
    return res


C20Check.run_invariant_annotations = _run_invariant_annotations


def factory():
    return C20Check()


if __name__ == "__main__":
    from hsim.runner import main_for

    sys.exit(main_for(factory))
