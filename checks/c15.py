"""C15 - invariant testing covers every bounded call sequence (run-sim).

Workload: a test contract whose setUp() CREATEs a small stateful target (2-4 mutators over two slots, optional
payable / sender-checked / timestamp-dependent mutators, a mutator with an internal assertion), optional Foundry
filter getters (targetSenders / excludeSenders / targetContracts / excludeContracts / targetSelectors /
excludeSelectors, hand-encoded return data) and one or two invariant_* functions reading the target.
Ground truth: brute force on the reference EVM over all call sequences up to the depth, small argument / sender /
value / timestamp domains, honouring the filters as Foundry specifies.
"""

from __future__ import annotations

import hashlib
import itertools
import os
import sys

sys.path.insert(0, os.path.dirname(os.path.dirname(os.path.abspath(__file__))))

from evm import artifact as A  # noqa: E402
from evm.asm import Asm, initcode_for  # noqa: E402
from evm.refevm import DEFAULT_BLOCK, RefEVM, World  # noqa: E402
from hsim import runsim as R  # noqa: E402

M256 = (1 << 256) - 1
TEST_ADDR = 0x7FA9385BE102AC3EAC297483DD6233D62B3E1496
CALLER = 0x1804C8AB1F12E6BBF3894D4083F33E07309D1F38
S1, S2, S3 = 0xA11CE, 0xB0B, 0xCA401
VERDICT_OF_EXIT = {0: "PASS", 1: "FAIL", 2: "TIMEOUT", 3: "ERROR", 4: "ERROR", 5: "ERROR"}

# ---- mutators of the target contract: name -> (signature, mutability, emitter(a, K))
# slots: 0 = v, 1 = w, 2 = last timestamp


def _m_inc(a, k):
    a.push(0).op("SLOAD").push(1).op("ADD").push(0).op("SSTORE").op("STOP")


def _m_set(a, k):
    a.push(4).op("CALLDATALOAD").push(0).op("SSTORE")
    # a branch on the argument *after* the write (two paths, same stored term)
    skip = a.fresh("skip")
    a.push(4).op("CALLDATALOAD").push(k).op("EQ").op("ISZERO").jumpi(skip)
    a.push(0).push(0).op("LOG0")
    a.label(skip)
    a.op("STOP")


def _m_add(a, k):
    a.push(0xFF).push(4).op("CALLDATALOAD").op("AND").push(0).op("SLOAD").op("ADD").push(0).op("SSTORE").op("STOP")


def _m_double(a, k):
    a.push(0).op("SLOAD").op("DUP1").op("ADD").push(0).op("SSTORE").op("STOP")


def _m_reset(a, k):
    a.push(0).push(0).op("SSTORE").op("STOP")


def _m_onlyowner(a, k):
    # require(msg.sender == S1); w = 1
    bad = a.fresh("bad")
    a.op("CALLER").push(S1).op("EQ").op("ISZERO").jumpi(bad)
    a.push(1).push(1).op("SSTORE").op("STOP")
    a.label(bad)
    a.push(0).push(0).op("REVERT")


def _m_pay(a, k):
    # payable: w += msg.value
    a.op("CALLVALUE").push(1).op("SLOAD").op("ADD").push(1).op("SSTORE").op("STOP")


def _m_touch(a, k):
    # if (block.timestamp == last) w = 1; last = block.timestamp
    skip = a.fresh("skip")
    a.op("TIMESTAMP").push(2).op("SLOAD").op("EQ").op("ISZERO").jumpi(skip)
    a.push(1).push(1).op("SSTORE")
    a.label(skip)
    a.op("TIMESTAMP").push(2).op("SSTORE").op("STOP")


def _m_guarded(a, k):
    # assert(v != K) inside the target (a "probe"), then v += 2
    ok = a.fresh("ok")
    a.push(0).op("SLOAD").push(k).op("EQ").op("ISZERO").jumpi(ok)
    A.emit_panic(a, 1)
    a.label(ok)
    a.push(0).op("SLOAD").push(2).op("ADD").push(0).op("SSTORE").op("STOP")


def _m_tlock(a, k):
    # transient storage is empty at the start of every transaction: if (tload(0) != 0) w = 1; else { tstore(0, 1); v += 1 }
    # a leak from one invariant call into the next turns the second call into w = 1 (a break that does not reproduce) and
    # loses the second increment (a missed sequence)
    leak = a.fresh("leak")
    a.push(0).op("TLOAD").jumpi(leak)
    a.push(1).push(0).op("TSTORE")
    a.push(0).op("SLOAD").push(1).op("ADD").push(0).op("SSTORE").op("STOP")
    a.label(leak)
    a.push(1).push(1).op("SSTORE").op("STOP")


def _m_bind(swapped):
    # bind(a, b): if (b > K) {} [or b == K, by the parity of K]; require(a == b); v = a      (swapped: the require comes first)
    # the two arms store the same term and differ only in a condition on b, which reaches the state through a == b alone:
    # they are different states (one allows v == K, the other does not) and must not be merged
    def emit(a, k):
        def branch():
            skip = a.fresh("skip")
            a.push(k).push(0x24).op("CALLDATALOAD").op("GT" if k % 2 == 0 else "EQ").op("ISZERO").jumpi(skip)
            a.push(0).push(0).op("LOG0")
            a.label(skip)

        def req():
            ok = a.fresh("ok")
            a.push(0x24).op("CALLDATALOAD").push(4).op("CALLDATALOAD").op("EQ").jumpi(ok)
            a.push(0).push(0).op("REVERT")
            a.label(ok)
        for part in ((req, branch) if swapped else (branch, req)):
            part()
        a.push(4).op("CALLDATALOAD").push(0).op("SSTORE").op("STOP")
    return emit


def _child_runtime(c):
    # the constant sits in the code like a Solidity immutable: PUSH32 <c> at offset 1
    rt = Asm()
    rt.push(c, 32).push(0).op("MSTORE").push(0x20).push(0).op("RETURN")
    return rt.assemble()


def _m_make(c):
    # child = new Child(c) (one contract type, another immutable in its code); slot 3 = child
    def emit(a, k):
        init = initcode_for(_child_runtime(c))
        tag = a.fresh("cinit")
        a.push(len(init)).ref(tag).push(0x200).op("CODECOPY")
        a.push(len(init)).push(0x200).push(0).op("CREATE").push(3).op("SSTORE").op("STOP")
        a.mark(tag).raw(init)
    return emit


def _m_trip(a, k):
    # if (child != 0) w = child.limit() > 50
    go = a.fresh("go")
    a.push(3).op("SLOAD").jumpi(go)
    a.op("STOP")
    a.label(go)
    a.push(0x20).push(0x320).push(0).push(0).push(3).op("SLOAD").push(0xFFFF).op("STATICCALL").op("POP")
    a.push(50).push(0x320).op("MLOAD").op("GT").push(1).op("SSTORE").op("STOP")


MUTATORS = {
    "mklow": ("makeLow()", "nonpayable", _m_make(1)),
    "mkhigh": ("makeHigh()", "nonpayable", _m_make(100)),
    "trip": ("trip()", "nonpayable", _m_trip),
    "inc": ("inc()", "nonpayable", _m_inc),
    "set": ("set(uint256)", "nonpayable", _m_set),
    "add": ("add(uint256)", "nonpayable", _m_add),
    "double": ("double()", "nonpayable", _m_double),
    "reset": ("reset()", "nonpayable", _m_reset),
    "onlyowner": ("onlyOwner()", "nonpayable", _m_onlyowner),
    "pay": ("pay()", "payable", _m_pay),
    "touch": ("touch()", "nonpayable", _m_touch),
    "guarded": ("guarded()", "nonpayable", _m_guarded),
    "tlock": ("tlock()", "nonpayable", _m_tlock),
    "bind": ("bind(uint256,uint256)", "nonpayable", _m_bind(False)),
    "bindr": ("bindr(uint256,uint256)", "nonpayable", _m_bind(True)),
}
INVARIANTS = ["v_ne_k", "v_lt_k", "w_zero", "sum_ne_k"]


def emit_return_words(a: Asm, words):
    for i, w in enumerate(words):
        if callable(w):
            w(a)
        else:
            a.push(w)
        a.push(0x80 + 32 * i).op("MSTORE")
    a.push(32 * len(words)).push(0x80).op("RETURN")


class InvCase:
    def __init__(self, ch):
        self.ch = ch
        self.k = ch.choose([2, 3, 1, 4, 0x2A], "i.k")
        names = [m for m in MUTATORS if m not in ("mklow", "mkhigh", "trip")]
        n = ch.int(2, 4, "i.nmut")
        self.muts = []
        for i in range(n):
            m = ch.choose(names, f"i.m{i}")
            if m not in self.muts:
                self.muts.append(m)
        self.inv = ch.choose(INVARIANTS, "i.inv")
        self.depth = ch.choose([2, 1, 3, 0], "i.depth")
        if ch.chance(0.15, "i.factory"):
            # factory-style handlers: target calls that deploy contracts of one shape with different code
            self.muts = self.muts[:1] + ch.shuffle(["mklow", "mkhigh", "trip"], "i.factory.order")
            self.inv = ch.choose(["w_zero", "w_zero", "sum_ne_k"], "i.factory.inv")
            self.depth = ch.choose([2, 2, 3], "i.factory.depth")
        self.with_filters = ch.chance(0.6, "i.filters")
        self.second_target = ch.chance(0.3, "i.second")
        if self.second_target and "mklow" in self.muts and self.depth > 2:
            self.depth = 2  # two instances x (3 factory handlers + 1) x depth 3 takes minutes of brute force and exploration
        # which instance the invariant looks at (filters are per instance: what holds for T1 need not hold for T2)
        self.inv_target = ch.pick(2, "i.invtarget") if self.second_target else 0
        # filters (in terms of names resolved later): lists of sender constants / 'T1','T2' / selectors
        self.f = dict(target_senders=[], exclude_senders=[], target_contracts=[], exclude_contracts=[],
                      target_selectors={}, exclude_selectors={})
        if self.with_filters:
            if ch.chance(0.4, "i.fts"):
                self.f["target_senders"] = ch.choose([[S1], [S2], [S1, S2]], "i.ts")
            if ch.chance(0.3, "i.fes"):
                self.f["exclude_senders"] = ch.choose([[S1], [S2], [S3]], "i.es")
            if self.second_target and ch.chance(0.4, "i.ftc"):
                self.f["target_contracts"] = ch.choose([["T1"], ["T2"]], "i.tc")
            if self.second_target and ch.chance(0.3, "i.fec"):
                self.f["exclude_contracts"] = ch.choose([["T1"], ["T2"]], "i.ec")
            if ch.chance(0.4, "i.ftsel"):
                pick = [m for m in self.muts if ch.chance(0.5, "i.tsel." + m)] or [self.muts[0]]
                self.f["target_selectors"] = {"T1": pick}
            if ch.chance(0.3, "i.fesel"):
                pick = [m for m in self.muts if ch.chance(0.4, "i.esel." + m)] or [self.muts[-1]]
                self.f["exclude_selectors"] = {"T1": pick}
        self.build()

    # ---------------------------------------------------------------- code generation
    def target_runtime(self):
        fns = {}
        abis = []
        for m in self.muts:
            sig, mut, emit = MUTATORS[m]

            def body(a, emit=emit, mut=mut):
                if mut != "payable":
                    ok = a.fresh("nv")
                    a.op("CALLVALUE").op("ISZERO").jumpi(ok)
                    a.push(0).push(0).op("REVERT")
                    a.label(ok)
                emit(a, self.k)
            fns[sig] = body
            abis.append(A.abi_item(sig, ["x", "y"][:sig.count("uint256")], mutability=mut))
        fns["getV()"] = lambda a: (a.push(0).op("SLOAD").push(0x80).op("MSTORE"), a.push(0x20).push(0x80).op("RETURN"))
        fns["getW()"] = lambda a: (a.push(1).op("SLOAD").push(0x80).op("MSTORE"), a.push(0x20).push(0x80).op("RETURN"))
        abis.append(A.abi_item("getV()", outputs=["uint256"], mutability="view"))
        abis.append(A.abi_item("getW()", outputs=["uint256"], mutability="view"))
        return A.build_runtime(fns), abis

    def build(self):
        trt, tabis = self.target_runtime()
        self.target_rt = trt
        tinit = initcode_for(trt)
        self.tcj = A.contract_json("Target", "src/Target.sol", trt, tabis, creation=tinit, ast_id=10)

        def setup(a):
            tag = a.fresh("tinit")
            n_targets = 2 if self.second_target else 1
            for t in range(n_targets):
                a.push(len(tinit)).ref(tag).push(0x200).op("CODECOPY")
                a.push(len(tinit)).push(0x200).push(0).op("CREATE")
                a.push(t).op("SSTORE")
            a.op("STOP")
            a.mark(tag).raw(tinit)

        def read_target(a, getter, t=None):
            t = self.inv_target if t is None else t
            sel = int.from_bytes(A.selector(getter), "big")
            a.push(sel << 224).push(0x300).op("MSTORE")
            a.push(0x20).push(0x320).push(4).push(0x300).push(t).op("SLOAD").push(0xFFFF).op("STATICCALL").op("POP")
            a.push(0x320).op("MLOAD")

        def invariant(a):
            ok = a.fresh("ok")
            if self.inv == "v_ne_k":
                read_target(a, "getV()"); a.push(self.k).op("EQ").op("ISZERO").jumpi(ok)
            elif self.inv == "v_lt_k":
                a.push(self.k + 1); read_target(a, "getV()"); a.op("LT").jumpi(ok)
            elif self.inv == "w_zero":
                read_target(a, "getW()"); a.op("ISZERO").jumpi(ok)
            else:
                read_target(a, "getW()"); read_target(a, "getV()"); a.op("ADD"); a.push(self.k).op("EQ").op("ISZERO").jumpi(ok)
            A.emit_panic(a, 1)
            a.label(ok)
            a.op("STOP")

        fns = {"setUp()": setup, "invariant_main()": invariant}
        abis = [A.abi_item("setUp()"), A.abi_item("invariant_main()")]
        if self.with_filters:
            def addr_of(name):
                return (lambda a: a.push(0 if name == "T1" else 1).op("SLOAD")) if name in ("T1", "T2") else name

            def addr_array(items):
                return lambda a: emit_return_words(a, [0x20, len(items)] + [addr_of(x) for x in items])

            def fuzz_selectors(d):
                # FuzzSelector[]: one entry per contract
                def emit(a):
                    entries = list(d.items())
                    words = [0x20, len(entries)]
                    offs = []
                    off = 32 * len(entries)
                    for cname, ms in entries:
                        offs.append(off)
                        off += 32 * (3 + len(ms))
                    words += offs
                    for cname, ms in entries:
                        words += [addr_of(cname), 0x40, len(ms)]
                        words += [int.from_bytes(A.selector(MUTATORS[m][0]), "big") << 224 for m in ms]
                    emit_return_words(a, words)
                return emit

            fns["targetSenders()"] = addr_array(self.f["target_senders"])
            fns["excludeSenders()"] = addr_array(self.f["exclude_senders"])
            fns["targetContracts()"] = addr_array(self.f["target_contracts"])
            fns["excludeContracts()"] = addr_array(self.f["exclude_contracts"])
            fns["targetSelectors()"] = fuzz_selectors(self.f["target_selectors"])
            fns["excludeSelectors()"] = fuzz_selectors(self.f["exclude_selectors"])
            for g in ("targetSenders()", "excludeSenders()", "targetContracts()", "excludeContracts()",
                      "targetSelectors()", "excludeSelectors()"):
                abis.append(A.abi_item(g, outputs=["address[]"], mutability="view"))
        self.test_rt = A.build_runtime(fns)
        self.cj = A.contract_json("T", "test/T.sol", self.test_rt, abis)
        arts = [("T.sol", "T", self.cj), ("Target.sol", "Target", self.tcj)]
        if "mklow" in self.muts:
            crt = _child_runtime(0)
            ccj = A.contract_json("Child", "src/Child.sol", crt, [A.abi_item("limit()", outputs=["uint256"], mutability="view")],
                                  creation=initcode_for(crt), ast_id=30)
            ccj["deployedBytecode"]["immutableReferences"] = {"7": [{"start": 1, "length": 32}]}
            arts.append(("Child.sol", "Child", ccj))
        self.bom = A.build_out_map(arts)

    # ---------------------------------------------------------------- reference: filters as Foundry specifies
    def admissible(self, taddrs):
        """-> list of (target address, mutator name), and a predicate on senders"""
        f = self.f
        names = {"T1": taddrs[0]}
        if self.second_target:
            names["T2"] = taddrs[1]
        deployed = list(names.values())
        res = lambda xs: [names[x] for x in xs if x in names]  # noqa: E731
        tc, ec = res(f["target_contracts"]), res(f["exclude_contracts"])
        tsel = {names[c]: ms for c, ms in f["target_selectors"].items() if c in names}
        esel = {names[c]: ms for c, ms in f["exclude_selectors"].items() if c in names}
        contracts = [c for c in (tc if tc else deployed) if c not in ec]
        for c in tsel:
            if c not in contracts:
                contracts.append(c)
        calls = []
        for c in contracts:
            if c in tsel and tsel[c]:
                ms = [m for m in self.muts if m in tsel[c]]
            elif c in esel and esel[c]:
                ms = [m for m in self.muts if m not in esel[c]]
            else:
                ms = list(self.muts)
            calls += [(c, m) for m in ms]
        eff = [s for s in f["target_senders"] if s not in f["exclude_senders"]]
        if eff:
            sender_ok = lambda s: s in eff  # noqa: E731
        elif f["exclude_senders"]:
            sender_ok = lambda s: s not in f["exclude_senders"]  # noqa: E731
        else:
            sender_ok = lambda s: True  # noqa: E731
        return calls, sender_ok

    def new_world(self, taddrs):
        w = World()
        w.code[TEST_ADDR] = self.test_rt
        w.storage[TEST_ADDR] = {}
        w.transient[TEST_ADDR] = {}
        w.balance[TEST_ADDR] = 0xFFFFFFFFFFFFFFFFFFFFFFFF
        it = iter(taddrs)
        evm = RefEVM(w, addr_oracle=lambda *a: next(it), max_steps=50000)
        fr = evm.run_tx(TEST_ADDR, CALLER, CALLER, 0, A.selector("setUp()"))
        assert fr.error is None, fr.error
        return w

    def invariant_broken(self, w, ts):
        w2 = w.copy()
        evm = RefEVM(w2, block={**DEFAULT_BLOCK, "timestamp": ts}, addr_oracle=lambda *a: 0xDEAD01)
        fr = evm.run_tx(TEST_ADDR, CALLER, CALLER, 0, A.selector("invariant_main()"))
        return fr.error == "revert" and fr.output[:4] == bytes.fromhex("4e487b71")

    def apply_call(self, w, ts, target, data, sender, value):
        """-> (new world | None if reverted, panicked?)"""
        w2 = w.copy()
        # the sender of an invariant call is arbitrary, and so is its balance: whatever value it sends, it can afford
        w2.balance[sender] = max(w2.bal(sender), 10, value)
        # contracts created by the call get an address no other account has (halmos: the next free 0xaaaa.... address)
        evm = RefEVM(w2, block={**DEFAULT_BLOCK, "timestamp": ts}, addr_oracle=lambda *a: 0xDEAD0000 + len(w2.code))
        fr = evm.run_tx(target, sender, sender, value, data, transfer_top=True)
        if fr.error is not None:
            panicked = fr.error == "revert" and fr.output[:4] == bytes.fromhex("4e487b71") and len(fr.output) == 36
            return None, panicked
        return w2, False

    def brute_force(self, taddrs, depth):
        """is there a sequence of <= depth admissible calls that breaks the invariant (or hits the target's assertion)?"""
        calls, sender_ok = self.admissible(taddrs)
        senders = [s for s in (S1, S2, S3) if sender_ok(s)]
        argdom = sorted({0, 1, 2, self.k, (self.k - 1) & M256, self.k + 1, 0xFF})
        w0 = self.new_world(taddrs)
        if self.invariant_broken(w0, 1):
            return ("invariant", [])
        frontier = [(w0, 1, [])]
        seen = set()
        for d in range(depth):
            nxt = []
            for w, ts, seq in frontier:
                for (c, m) in calls:
                    sig, mut, _ = MUTATORS[m]
                    args = argdom if "uint256" in sig else [None]
                    if sig.count("uint256") == 2:
                        args = list(itertools.product(sorted({0, self.k, (self.k - 1) & M256, self.k + 1}), repeat=2))
                    values = [0, 1] if mut == "payable" else [0]
                    for x, s, v, dt in itertools.product(args, senders, values, (0, 1)):
                        data = A.selector(sig) + (b"" if x is None else b"".join(v_.to_bytes(32, "big") for v_ in (x if isinstance(x, tuple) else (x,))))
                        w2, panicked = self.apply_call(w, ts + dt, c, data, s, v)
                        step = (hex(c), m, x, hex(s), v, ts + dt)
                        if panicked:
                            return ("probe", seq + [step])
                        if w2 is None:
                            continue
                        if self.invariant_broken(w2, ts + dt):
                            return ("invariant", seq + [step])
                        key = (tuple(sorted((a, tuple(sorted(st.items()))) for a, st in w2.storage.items())),
                               tuple(sorted(w2.balance.items())), tuple(sorted(w2.code.items())), ts + dt)
                        if key in seen:
                            continue
                        seen.add(key)
                        nxt.append((w2, ts + dt, seq + [step]))
            frontier = nxt[:400]
        return None

    def describe(self):
        return dict(muts=self.muts, inv=self.inv, k=self.k, depth=self.depth, filters=self.f if self.with_filters else None,
                    second_target=self.second_target, inv_target=self.inv_target)


class C15Check:
    property_id = "C15"
    name = "c15-run-sim"
    level = "exploration"
    rule = ("(15 % of the cases are factory-style: handlers makeLow / makeHigh deploy a child of one contract type with a different immutable, trip() reads it) each run = one generated invariant test: setUp CREATEs 1-2 instances of a target with 2-4 mutators drawn from {inc, set(x) "
            "with a post-write branch, add(x&0xff), double, reset, onlyOwner (sender check), pay (payable), touch (timestamp), guarded "
            "(internal assert)}, invariant over its two slots (v != K, v <= K, w == 0, v + w != K), --invariant-depth 0-3, optional "
            "Foundry filter getters (target/exclude senders, contracts, selectors; hand-encoded ABI return data); run_contract under the "
            "simulator (solver, threads, latencies, uid stream seeded; probe and invariant queries run on separate executors). Ground "
            "truth: brute force on the reference EVM over all sequences of <= depth admissible calls (arguments {0,1,2,K-1,K,K+1,255}, "
            "senders {S1,S2,S3} per the filters, value {0,1} for payable, timestamp +0/+1). Oracles: a breaking sequence exists => the "
            "verdict is not PASS; no breaking sequence over the *full* domain is claimed only through the replay oracle: every FAIL's "
            "call sequence (terms captured at the violation, evaluated under the reported model) is replayed on the reference EVM and "
            "must break the invariant / hit the assertion, use only admissible targets, selectors and senders and at most depth calls. "
            "distinct = distinct (contract hash, event-log digest); non-trivial = depth >= 1 and >= 2 frontier states")
    assumptions = ["brute force covers small argument domains only: it can miss breaks (then nothing is claimed), never invent one",
                   "created-contract addresses are read back from halmos' post-setUp state and imposed on the reference",
                   "filters follow the resolution rules stated in the property / Foundry documentation, re-implemented independently"]
    components = {
        "real": ["halmos.__main__ (_compute_frontier, run_target_contract, run_target_function, resolve_target_*, getters, run_test)",
                 "halmos.cheatcodes.snapshot_state", "halmos.sevm", "halmos.solve / processes"],
        "stub": ["thread scheduling", "ThreadPoolExecutor (model)", "Popen / psutil (simulated)", "clock", "uuid4", "forge"],
    }
    tiers = {
        "quick": {"budget_s": 75, "run_timeout": 120, "shrink_budget": 60},
        "thorough": {"budget_s": 900, "run_timeout": 120, "shrink_budget": 240},
    }

    def prepare(self):
        import halmos.__main__  # noqa: F401

    def run_one(self, ch, keep_log=False, **_):
        import z3

        import halmos.__main__ as hm

        solver = ch.choose(["yices", "yices", "yices", "yices", "yices", "z3"], "sw.solver")
        threads = ch.choose([1, 2, 4], "sw.threads")
        early_exit = ch.chance(0.15, "sw.ee")
        case = InvCase(ch)
        args = R.make_args(solver_threads=threads, panic_error_codes={1}, invariant_depth=case.depth, early_exit=early_exit)
        captured = []  # (funname, call sequence terms, model) for every valid counterexample
        holder = {}

        def main():
            H = hm.CounterexampleHandler
            orig_cb = H._solve_end_to_end_callback
            orig_get = H._get_solver_output

            def get(self_h, future, path_ctx):
                so = orig_get(self_h, future, path_ctx)
                holder[id(path_ctx)] = so
                return so

            def cb(self_h, future, ex, path_ctx, description):
                r = orig_cb(self_h, future, ex=ex, path_ctx=path_ctx, description=description)
                so = holder.pop(id(path_ctx), None)
                if so is not None and so.model is not None and so.model.is_valid:
                    captured.append((self_h.is_probe, list(ex.call_sequence), so.model, ex.context))
                return r

            H._solve_end_to_end_callback = cb
            H._get_solver_output = get
            try:
                ctx = R.make_contract_ctx(args, "T", "test/T.sol", case.cj, ["invariant_main()"], case.bom)
                holder["ctx"] = ctx
                return hm.run_contract(ctx)
            finally:
                H._solve_end_to_end_callback = orig_cb
                H._get_solver_output = orig_get

        out = R.run_under_sim(ch, main, solver=solver, keep_log=keep_log, max_steps=120000)
        vio = []
        probes = {"depth_" + str(case.depth): 1}
        incon = "truthful-solver-wall-timeout" if out.stub.wall_timeouts else None
        verdict = None
        ctx = holder.get("ctx")
        taddrs = None
        if ctx is not None and ctx.frontier_states.get(0):
            ex0 = ctx.frontier_states[0][0]
            created = sorted(z3.simplify(k).as_long() for k in ex0.code if z3.simplify(k).as_long() != TEST_ADDR)
            taddrs = created
            probes["frontier_states"] = sum(len(v) for v in ctx.frontier_states.values())
        if out.outcome == "deadlock":
            vio.append(dict(oracle="C15:hang", disc="deadlock", detail=str(out.sim.deadlock_info)))
        elif out.outcome == "done" and incon is None and taddrs and len(taddrs) == (2 if case.second_target else 1) \
                and out.results:
            res0 = out.results[0]
            verdict = VERDICT_OF_EXIT.get(res0.exitcode)
            probes["verdict_" + str(verdict)] = 1
            truth = case.brute_force(taddrs, case.depth)
            probes["truth_break"] = int(truth is not None)
            any_probe_reported = "Assertion failure detected" in out.stdout
            if truth is not None and verdict == "PASS":
                kind, seq = truth
                if kind == "probe":
                    if not any_probe_reported:
                        vio.append(dict(oracle="C15:sequence-missed", disc="target-assertion-not-reported",
                                        detail=f"sequence {seq} hits the assertion inside the target, but nothing was reported; case {case.describe()}"))
                    else:
                        vio.append(dict(oracle="C15:sequence-missed", disc="target-assertion-but-pass",
                                        detail=f"sequence {seq} hits the assertion inside the target; it is printed but the invariant test is [PASS]; "
                                               f"case {case.describe()}"))
                else:
                    vio.append(dict(oracle="C15:sequence-missed", disc=f"{case.inv}:len={len(seq)}",
                                    detail=f"[PASS] although the admissible sequence {seq} breaks {case.inv} (K={case.k}) on the reference EVM "
                                           f"within depth {case.depth}; case {case.describe()}; frontier sizes "
                                           f"{ {d: len(v) for d, v in ctx.frontier_states.items()} }"))
            # ---- replay of every reported counterexample sequence
            calls_ok, sender_ok = case.admissible(taddrs)
            for is_probe, seq, model, last_ctx in captured:
                probes["sequences_replayed"] = probes.get("sequences_replayed", 0) + 1
                vals = {v.full_name: v.value for v in model.model.values()}

                def ev(t):
                    if isinstance(t, (int, bytes)):
                        return t
                    if hasattr(t, "unwrap"):
                        t = t.unwrap()
                    if hasattr(t, "as_z3"):
                        t = t.as_z3()
                    if isinstance(t, (int, bytes)):
                        return t
                    # substitute model values by name, complete with zeros
                    subst = []
                    stack, seen = [t], set()
                    while stack:
                        u = stack.pop()
                        if u.get_id() in seen:
                            continue
                        seen.add(u.get_id())
                        if z3.is_const(u) and u.decl().kind() == z3.Z3_OP_UNINTERPRETED and z3.is_bv(u):
                            subst.append((u, z3.BitVecVal(vals.get(u.decl().name(), 0), u.size())))
                        stack.extend(u.children())
                    r = z3.simplify(z3.substitute(t, *subst)) if subst else z3.simplify(t)
                    return r.as_long() if z3.is_bv_value(r) else None

                w = case.new_world(taddrs)
                ts = 1
                ok = True
                why = ""
                steps = []
                if len(seq) > case.depth:
                    ok, why = False, f"sequence of {len(seq)} calls exceeds depth {case.depth}"
                for i, call in enumerate(seq):
                    msg = call.message
                    tgt, snd, val = ev(msg.target), ev(msg.caller), ev(msg.value)
                    data = ev(msg.data)
                    if None in (tgt, snd, val, data):
                        ok, why = None, "a call of the sequence does not evaluate to concrete values under the model"
                        break
                    data = data if isinstance(data, bytes) else data.to_bytes(len(msg.data), "big")
                    # call i runs under the timestamp chosen after call i-1 (the first one under the setUp timestamp)
                    tsv = vals.get(next((n for n in vals if n.startswith(f"halmos_block_timestamp_depth{i}_")), ""), None) if i else 1
                    ts_new = tsv if tsv is not None else ts
                    if ts_new < ts:
                        ok, why = False, f"timestamp decreases at call {i}"
                        break
                    ts = ts_new
                    mname = next((m for m in case.muts if A.selector(MUTATORS[m][0]) == data[:4]), None)
                    steps.append((hex(tgt), mname, data[4:].hex(), hex(snd), val, ts))
                    if mname is None and data[:4] in (A.selector("getV()"), A.selector("getW()")):
                        continue  # a view getter: changes nothing, whoever calls it
                    if (tgt, mname) not in calls_ok:
                        ok, why = False, f"call {i} targets {hex(tgt)}.{mname}, which the filters exclude"
                        break
                    if not sender_ok(snd):
                        ok, why = False, f"call {i} is sent by {hex(snd)}, which the filters exclude"
                        break
                    w2, panicked = case.apply_call(w, ts, tgt, data, snd, val)
                    last = i == len(seq) - 1
                    if is_probe and last:
                        if not panicked:
                            ok, why = False, "the last call does not hit the assertion inside the target on the reference EVM"
                        break
                    if w2 is None:
                        ok, why = False, f"call {i} reverts on the reference EVM"
                        break
                    w = w2
                if ok and not is_probe:
                    tsv = vals.get(next((n for n in vals if n.startswith(f"halmos_block_timestamp_depth{len(seq)}_")), ""), None)
                    if tsv is not None and tsv >= ts:
                        ts = tsv
                if ok and not is_probe and not case.invariant_broken(w, ts):
                    ok, why = False, "the invariant holds on the reference EVM after the reported sequence"
                if ok is False:
                    vio.append(dict(oracle="C15:sequence-does-not-reproduce", disc=why.split(",")[0][:60],
                                    detail=f"counterexample sequence {steps} (model {dict(list(vals.items())[:8])}): {why}; case {case.describe()}"))
                    break
                if ok is None:
                    probes["sequence_not_concrete"] = probes.get("sequence_not_concrete", 0) + 1
        nontrivial = case.depth >= 1 and probes.get("frontier_states", 0) >= 2
        seen = set()
        uniq = []
        for v in vio:
            if (v["oracle"], v["disc"]) not in seen:
                seen.add((v["oracle"], v["disc"]))
                uniq.append(v)
        res = dict(violations=uniq, inconclusive=incon, faults=dict(out.sim.fault_counts), probes=probes, digest=out.sim.digest(),
                   shape=hashlib.sha1(case.test_rt + case.target_rt).hexdigest()[:12] + str(case.depth), nontrivial=nontrivial,
                   sim_seconds=out.sim.now, steps=out.sim.steps,
                   descriptor=dict(case=case.describe(), verdict=verdict, solver=solver, threads=threads, early_exit=early_exit,
                                   frontier={d: len(v) for d, v in (ctx.frontier_states.items() if ctx else [])},
                                   queries=len(out.stub.history)))
        if keep_log:
            res["log"] = [("stdout", out.stdout[-1500:]), ("warnings", out.warnings[-8:])]
        return res


def factory():
    return C15Check()


if __name__ == "__main__":
    from hsim.runner import main_for

    sys.exit(main_for(factory))
