"""C13 - assume and assert cheatcodes have exactly their stated meaning (engine-sim with a reference cheat model).

World: main -> helper_k -> ... -> helper_0 (nesting depth 0-3, calldata forwarded); the innermost frame optionally
calls vm.assume(pred) and then one vm.assert* cheatcode drawn from the reference table (76 signatures), with operands
built from the symbolic calldata words, boundary constants and small arrays / byte strings; afterwards every frame
writes storage and returns, so a missed failure is observable.
"""

from __future__ import annotations

import os
import sys

sys.path.insert(0, os.path.dirname(os.path.dirname(os.path.abspath(__file__))))

from checks.c01 import C01Check  # noqa: E402
from evm import abi, cheats_ref, gen  # noqa: E402
from evm.asm import Asm  # noqa: E402
from hsim import engine as E  # noqa: E402

M256 = (1 << 256) - 1
SIGS = sorted(v for v in cheats_ref.TABLE.values())
BOUNDARY = [0, 1, 2, (1 << 255) - 1, 1 << 255, (1 << 255) + 1, M256, M256 - 1, 0xFF, 1 << 160]


class Sym:
    """a cell whose value is an expression over calldata words"""

    def __init__(self, idx, op=None, c=0):
        self.idx, self.op, self.c = idx, op, c

    def emit(self, a: Asm):
        a.push(32 * self.idx).op("CALLDATALOAD")
        if self.op == "and":
            a.push(self.c).op("AND")
        elif self.op == "add":
            a.push(self.c).op("ADD")
        elif self.op == "not":
            a.op("NOT")
        elif self.op == "shl":
            a.push(self.c).op("SHL")


def word_cell(ch, typ, lbl, n_in):
    """a value of static type typ: symbolic (possibly masked) or a boundary constant"""
    k = ch.pick(4, lbl + ".k")
    i = ch.pick(n_in, lbl + ".i")
    if typ == "bool":
        return Sym(i, "and", 1) if k else ch.pick(2, lbl + ".c")
    if typ == "address":
        return Sym(i, "and", (1 << 160) - 1) if k else ch.choose([0, 1, gen.EOA1, (1 << 160) - 1], lbl + ".c")
    if k == 0:
        return ch.choose(BOUNDARY, lbl + ".c")
    if k == 1:
        return Sym(i)
    if k == 2:
        return Sym(i, "add", ch.choose([1, M256, 1 << 255], lbl + ".a"))
    return Sym(i, ch.choose(["not", "and"], lbl + ".o"), ch.choose([0xFF, 1 << 255, M256 >> 1], lbl + ".m"))


def bytes_cell(ch, lbl, n_in):
    n = ch.choose([0, 1, 3, 31, 32, 33], lbl + ".n")
    cells = []
    for j in range((n + 31) // 32):
        rem = min(32, n - 32 * j)
        if ch.chance(0.5, lbl + f".s{j}"):
            # symbolic content, left-aligned: clear the bytes behind the length
            c = Sym(ch.pick(n_in, lbl + f".i{j}"), "and", (M256 >> (8 * (32 - rem))) << (8 * (32 - rem)))
        else:
            c = int.from_bytes((bytes([0x61 + j, 0x62, 0x63]) * 11)[:rem].ljust(32, b"\0"), "big")
        cells.append(c)
    return (n, cells)


def value_for(ch, typ, lbl, n_in, like=None):
    """like: a previously drawn value of the same type to derive from (equal / equal prefix / different length)"""
    if typ.endswith("[]"):
        et = typ[:-2]
        n = ch.int(0, 3, lbl + ".len")
        if like is not None and ch.chance(0.6, lbl + ".same"):
            items = list(like)
            if items and ch.chance(0.3, lbl + ".mut"):
                j = ch.pick(len(items), lbl + ".mj")
                items[j] = value_for(ch, et, lbl + ".m", n_in)
            elif ch.chance(0.25, lbl + ".drop") and items:
                items = items[:-1]
            return items
        return [value_for(ch, et, lbl + f".e{j}", n_in) for j in range(n)]
    if typ in ("bytes", "string"):
        if like is not None and ch.chance(0.6, lbl + ".same"):
            n, cells = like
            if ch.chance(0.3, lbl + ".shorter") and n > 0:
                return (n - 1, cells)  # same content, one byte shorter (the last byte may then be non-zero padding: mask it)
            return (n, list(cells))
        return bytes_cell(ch, lbl, n_in)
    if like is not None and ch.chance(0.5, lbl + ".same"):
        return like
    return word_cell(ch, typ, lbl, n_in)


def emit_store_cells(a: Asm, cells, base):
    for i, c in enumerate(cells):
        if isinstance(c, Sym):
            c.emit(a)
        else:
            a.push(c & M256)
        a.push(base + 32 * i).op("MSTORE")


def build_world(ch, options):
    n_in = ch.int(1, 3, "w.nin")
    depth = ch.int(0, 3, "w.depth")
    sig, op, types = SIGS[ch.pick(len(SIGS), "w.sig")]
    use_assume = ch.chance(0.4, "w.assume")
    # operands
    vals = []
    for k, t in enumerate(types):
        if k == len(types) - 1 and t == "string" and len(types) == (2 if op in ("True", "False") else 3):
            vals.append((3, [int.from_bytes(b"msg".ljust(32, b"\0"), "big")]))  # the log message
        else:
            like = vals[0] if (k == 1 and op not in ("True", "False")) else None
            vals.append(value_for(ch, t, f"w.v{k}", n_in, like))
    # a shortened copy of a bytes value must have clean padding
    for k, t in enumerate(types):
        if t in ("bytes", "string") and vals[k][0] % 32 and vals[k][1]:
            n, cells = vals[k]
            last = cells[(n - 1) // 32]
            rem = n - 32 * ((n - 1) // 32)
            mask = (M256 >> (8 * (32 - rem))) << (8 * (32 - rem))
            if isinstance(last, Sym):
                last = Sym(last.idx, "and", mask if last.op != "and" else (last.c & mask))
            else:
                last &= mask
            cells = list(cells)
            cells[(n - 1) // 32] = last
            vals[k] = (n, cells[: (n + 31) // 32])
    cells = abi.layout(types, vals)
    sel = int.from_bytes(cheats_ref._sel(sig), "big")

    def innermost(a: Asm):
        skip_assume = None
        if use_assume and ch.chance(0.4, "w.abranch"):
            # the assumption is made on one side of a branch only: the sibling path reaches the same assertion without it
            skip_assume = a.fresh("noassume")
            j = ch.pick(n_in, "w.abi")
            a.push(1).push(32 * j).op("CALLDATALOAD").op("AND")
            if ch.chance(0.5, "w.abside"):
                a.op("ISZERO")
            a.jumpi(skip_assume)
        if use_assume:
            # vm.assume(pred(cd))
            a.push(int.from_bytes(cheats_ref.ASSUME, "big") << 224).push(0x300).op("MSTORE")
            kind = ch.pick(3, "w.ak")
            i = ch.pick(n_in, "w.ai")
            if kind == 0:
                a.push(ch.choose([5, 1 << 255, 0x100], "w.ac")).push(32 * i).op("CALLDATALOAD").op("LT")
            elif kind == 1:
                a.push(1).push(32 * i).op("CALLDATALOAD").op("AND")
            else:
                a.push(32 * i).op("CALLDATALOAD").push(ch.choose([0, 7], "w.ae")).op("EQ").op("ISZERO")
            a.push(0x304).op("MSTORE")
            a.push(0).push(0).push(0x24).push(0x300).push(0).push(cheats_ref.VM).push(0xFFFF).op("CALL").op("POP")
        if skip_assume is not None:
            a.label(skip_assume)
        a.push(sel << 224).push(0x400).op("MSTORE")
        emit_store_cells(a, cells, 0x404)
        a.push(0).push(0).push(4 + 32 * len(cells)).push(0x400).push(0).push(cheats_ref.VM).push(0xFFFF).op("CALL").op("POP")
        a.push(0xA1).push(0).op("SSTORE")
        a.push(0x55).push(0).op("MSTORE").push(0x20).push(0).op("RETURN")

    def forwarder(to):
        def emit(a: Asm):
            a.op("CALLDATASIZE").push(0).push(0x80).op("CALLDATACOPY")
            a.push(0x20).push(0x200).op("CALLDATASIZE").push(0x80).push(0).push(to).push(0xFFFF).op("CALL")
            if assume_ok:
                # vm.assume(success): were a failed assertion to unwind as an ordinary failed call, this would hide it
                a.op("DUP1").push(0x304).op("MSTORE")
                a.push(int.from_bytes(cheats_ref.ASSUME, "big") << 224).push(0x300).op("MSTORE")
                a.push(0).push(0).push(0x24).push(0x300).push(0).push(cheats_ref.VM).push(0xFFFF).op("CALL").op("POP")
            a.push(1).op("SSTORE")  # the success flag the caller saw
            a.push(0x200).op("MLOAD").push(2).op("SSTORE")
            a.push(0xB2).push(0).op("MSTORE").push(0x20).push(0).op("RETURN")
        return emit

    assume_ok = depth > 0 and ch.chance(0.3, "w.assume_ok")
    accounts = {}
    addrs = [gen.TARGET] + [0x2000 + i for i in range(depth)]
    for lvl, addr in enumerate(addrs):
        a = Asm()
        if lvl == depth:
            innermost(a)
        else:
            forwarder(addrs[lvl + 1])(a)
        accounts[addr] = a.assemble()
    w = E.EWorld(accounts=accounts, target=gen.TARGET, calldata=[("sym", f"in_cd{i}", 32) for i in range(n_in)],
                 caller=gen.EOA1, origin=gen.EOA1, value=0, balances={}, options=options)
    w.meta = dict(sig=sig, depth=depth, assume=use_assume)
    return w


class C13Check(C01Check):
    property_id = "C13"
    name = "c13-engine-sim"
    oracle_prefixes = ("ENGINE:assert-semantics", "ENGINE:assume-semantics", "ENGINE:input-uncovered", "ENGINE:endstate-mismatch")
    rename = {"ENGINE:assert-semantics": "C13:assert-semantics", "ENGINE:assume-semantics": "C13:assume-semantics",
              "ENGINE:input-uncovered": "C13:input-uncovered", "ENGINE:endstate-mismatch": "C13:after-cheatcode-state"}
    rule = ("(30 % of the forwarding frames call vm.assume(success) on the flag of the forwarded call) each run = one world main -> 0-3 forwarding helper frames -> innermost frame that optionally calls vm.assume(pred) and then one "
            "vm.assert* cheatcode drawn uniformly from the 76 forge-std signatures of the reference table (True/False, Eq/NotEq over "
            "bool, uint256, int256, address, bytes32, string, bytes and their arrays, Lt/Gt/Le/Ge over uint256/int256, each with and "
            "without message). Operands: symbolic calldata words (raw, +c, ~, masked), sign/zero boundary constants, arrays of length 0-3 "
            "and byte strings of length 0/1/3/31/32/33, the second operand derived from the first (equal, one element changed, one "
            "shorter). SEVM.run under branching `unknown` injection / uid streams / gc. Oracle per (path, input): the reference EVM with "
            "the reference cheat model (selector from the signature string, meaning from name and types) - the input fails an assertion "
            "<=> its halmos path ends in FailCheatcode; an input vm.assume rejects is in no path; every other input is in a path whose "
            "whole frame tree (storage written after the cheatcode, success flags seen by callers) equals the reference. distinct = "
            "distinct (world hash, path list, query count); non-trivial = >= 1 (path, input) pair judged with a symbolic operand")
    kwargs = {"n_sigmas": 8, "check_pruned": False, "world_fn": build_world, "cheat": cheats_ref.handler,
              "cheat_addrs": (cheats_ref.VM,), "unknown_rates": (0.0, 0.0, 0.3, 1.0)}

    def refine(self, v):
        if v["oracle"] == "ENGINE:endstate-mismatch" and v.get("quirk"):
            return None
        return v

    def run_one(self, ch, keep_log=False, **kw):
        res = super().run_one(ch, keep_log=keep_log, **kw)
        res["nontrivial"] = res["probes"].get("pairs_judged", 0) >= 1
        return res


def factory():
    return C13Check()


if __name__ == "__main__":
    from hsim.runner import main_for

    sys.exit(main_for(factory))
