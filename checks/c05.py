"""C05 - verdict aggregation is fail-safe and independent of solver timing (run-sim, fault enumeration).

Workload: one test contract with one check function whose paths are selected by the first argument:
leaf i is taken iff x == MARK+i (and, for 'unreachable' leaves, a second contradictory condition that only
survives because every branching query is answered `unknown`).  Each leaf has a scripted outcome
(success / revert / Panic / vm.assert failure / stuck) and, if it issues a solver query, a scripted
reply kind.  The enumerated part crosses leaf outcomes x reachability x reply kinds (x option
combinations in the thorough tier); schedules, latencies and completion orders are sampled by seed, and
every vector is run under two different schedules (twin) whose verdicts must agree.
"""

from __future__ import annotations

import itertools
import os
import sys
import zlib

sys.path.insert(0, os.path.dirname(os.path.dirname(os.path.abspath(__file__))))

from evm import artifact as A  # noqa: E402
from hsim import runsim as R  # noqa: E402

MARK = 0x1000
OUTCOMES = ["success", "revert", "panic", "failflag", "stuck"]
GUARDS = ["eq", "unreach", "mulsat", "mulunsat"]
REPLIES = ["truth", "unknown", "hang", "slow_over", "crash_empty", "crash_partial", "garbage", "error_line",
           "rc_nonzero_valid", "spawn_oserror", "core_missing", "core_garbled", "core_empty", "core_truncated",
           "fs_enospc", "fs_short_write", "fs_out_eio", "fs_debugdir"]
PANIC_CODES = [0x01, 0x11, 0x12, 0x21]
VERDICT_OF_EXIT = {0: "PASS", 1: "FAIL", 2: "TIMEOUT", 3: "ERROR", 4: "ERROR", 5: "ERROR"}
SIG = "check_f(uint256,uint256)"


def build_contract(leaves, default):
    """leaves: list of dict(outcome, guard); default: 'success' | 'revert'"""

    def leaf_body(a, i, leaf):
        o = leaf["outcome"]
        if o == "success":
            a.push(i).push(0).op("MSTORE").push(0x20).push(0).op("RETURN")
        elif o == "revert":
            a.push(0).push(0).op("REVERT")
        elif o == "panic":
            A.emit_panic(a, PANIC_CODES[i % len(PANIC_CODES)])
        elif o == "failflag":
            A.emit_vm_call(a, "assertTrue(bool)", [0])
            a.op("POP").op("STOP")
        else:  # stuck: an opcode halmos does not support
            a.items.append(("op", 0x0C))
            a.op("STOP")

    def body(a):
        for i, leaf in enumerate(leaves):
            nxt = a.fresh("next")
            g = leaf["guard"]
            # x == MARK+i
            a.push(4).op("CALLDATALOAD").push(MARK + i).op("EQ").op("ISZERO").jumpi(nxt)
            if g == "unreach":
                # ... and (y & 0xff == 3) and (y & 0x0f == 5): a contradiction that only a solver sees, so the
                # path survives exactly because every branching query is answered `unknown`
                a.push(0xFF).push(0x24).op("CALLDATALOAD").op("AND").push(3).op("EQ").op("ISZERO").jumpi(nxt)
                a.push(0x0F).push(0x24).op("CALLDATALOAD").op("AND").push(5).op("EQ").op("ISZERO").jumpi(nxt)
            elif g == "mulsat":
                # ... and y * y == 9: symbolic x symbolic, so halmos abstracts the product; the first model the solver
                # gives may assign the abstraction freely (invalid model => refinement => second query, satisfiable)
                a.push(0x24).op("CALLDATALOAD").op("DUP1").op("MUL")
                a.push(9).op("EQ").op("ISZERO").jumpi(nxt)
            elif g == "mulunsat":
                # ... and y * y == 3: no square is 3 modulo 8, so the refined query is unsatisfiable
                a.push(0x24).op("CALLDATALOAD").op("DUP1").op("MUL")
                a.push(3).op("EQ").op("ISZERO").jumpi(nxt)
            leaf_body(a, i, leaf)
            a.label(nxt)
        if default == "success":
            a.op("STOP")
        else:
            a.push(0).push(0).op("REVERT")

    rt = A.build_runtime({SIG: body})
    cj = A.contract_json("T", "test/T.sol", rt, [A.abi_item(SIG, ["x", "y"])])
    return cj, A.build_out_map([("T.sol", "T", cj)])


def classify_exec(ex, panic_codes):
    """independent classification of a yielded path from its primitive fields"""
    from halmos.exceptions import FailCheatcode

    def tree_has_fail(ctx):
        if isinstance(ctx.output.error, FailCheatcode):
            return True
        return any(tree_has_fail(c) for c in ctx.subcalls())

    def tree_stuck(ctx):
        out = ctx.output
        if out.data is None:
            return True
        return any(tree_stuck(c) for c in ctx.subcalls() if c.output.error is not None and c.output.data is None)

    out = ex.context.output
    data = out.data
    err = out.error
    panic = False
    if err is not None and type(err).__name__ == "Revert" and data is not None and len(data) == 36:
        try:
            raw = data.unwrap()
            raw = raw if isinstance(raw, bytes) else None
        except Exception:  # noqa: BLE001
            raw = None
        if raw is not None and raw[:4] == bytes.fromhex("4e487b71") and int.from_bytes(raw[4:], "big") in panic_codes:
            panic = True
    if panic or tree_has_fail(ex.context):
        return "potential"
    if ex.context.is_stuck():
        return "stuck"
    if err is None:
        return "normal"
    return "reverted"


def first_line_class(stdout: str) -> str:
    i = stdout.find("\n")
    fl = stdout[:i] if i != -1 else stdout
    return fl if fl in ("sat", "unsat", "unknown") else "err"


class C05Check:
    property_id = "C05"
    name = "c05-run-sim"
    level = "fault_enumeration"
    rule = ("(one run in three also drives halmos' _main on a project directory; in half of those a SIGINT / SIGTERM is delivered at a seeded scheduling point of the main thread - the handler _main registered runs on its stack; oracle: exit with 128+signum, no hang) each case = (1-4 input-selected leaves with outcome in {success, revert, Panic, vm.assert failure, stuck} x guard in "
            "{reachable, contradictory (kept alive by injected branching `unknown`), needs-mul-refinement sat / unsat}, default "
            "leaf, per-leaf solver reply kind in {truthful, unknown, hang->timeout, slower than the limit, crash with empty output, "
            "crash with truncated output, garbage, (error ...), non-zero exit with valid output, spawn OSError, unsat core line "
            "missing / garbled / empty, query file write ENOSPC, silently truncated query file, EIO while storing the solver output}, --early-exit, --cache-solver, --solver-threads 1-4). Enumerated: all single-leaf vectors and the "
            "pairs (sat leaf x every other leaf/reply), options rotated (quick) or crossed (thorough); afterwards random vectors. "
            "Every case runs halmos' run_contract twice under two different seeded schedules (worker / per-job thread / callback "
            "interleavings, solver latencies 1ms-7s, optional line-level pre-emption in __main__/solve/processes). Oracle: verdict "
            "table evaluated on the recorded per-path outcomes (classified by the harness from the yielded states) and the replies "
            "actually delivered; PASS must additionally have >=1 success path, only unsat replies, no stuck path; twin verdicts "
            "equal; printed verdict == TestResult.exitcode class; run_test returns (no deadlock). One run in three additionally drives "
            "halmos' _main (argument parsing, artifacts written to <root>/out, a no-op `forge`, optional second contract whose setUp "
            "reverts or passes) under the same fault vector: the returned exit code must be 0 iff every selected test has exit code 0. distinct = distinct (vector, "
            "event-log digest); non-trivial = >=1 solver query answered and >=2 tasks interleaved")
    assumptions = [
        "the ThreadPoolExecutor, process table, psutil and clock are behavioural models (hsim/shims.py); threads are real, their interleaving is decided by the seeded scheduler",
        "truthful solver replies come from the real yices-smt2 / z3 binaries run synchronously on the very file halmos wrote",
        "a solver that lies (unsat for a satisfiable query) is not in the fault model",
        "yield points: every shim call, plus (swarm) source lines of halmos/__main__.py, solve.py, processes.py",
    ]
    components = {
        "real": ["halmos.__main__ (run_contract, setup, run_test, CounterexampleHandler)", "halmos.solve", "halmos.processes",
                 "halmos.sevm and below", "z3 (branching)", "yices-smt2 / z3 binaries (truthful replies)"],
        "stub": ["thread scheduling", "ThreadPoolExecutor (model)", "subprocess.Popen / psutil (simulated process table)",
                 "time / timers (simulated clock)", "uuid4", "forge (artifacts are hand-assembled)"],
    }
    tiers = {
        "quick": {"budget_s": 75, "run_timeout": 90, "shrink_budget": 60},
        "thorough": {"budget_s": 900, "run_timeout": 90, "shrink_budget": 240},
    }

    def prepare(self):
        import halmos.__main__  # noqa: F401

    # ------------------------------------------------------------------ enumeration
    def enumerate_vectors(self, tier):
        vecs = []
        opts = list(itertools.product([False, True], [False, True], [1, 2, 4]))  # early_exit, cache, threads
        n = 0

        def add(leaves, default):
            nonlocal n
            if tier == "thorough":
                for ee, cs, th in opts:
                    vecs.append(dict(leaves=leaves, default=default, early_exit=ee, cache=cs, threads=th))
            else:
                ee, cs, th = opts[zlib.crc32(repr((leaves, default)).encode()) % len(opts)]
                # unsat-core reply faults only mean something with the cache on
                if any(lf["reply"].startswith("core_") for lf in leaves):
                    cs = True
                vecs.append(dict(leaves=leaves, default=default, early_exit=ee, cache=cs, threads=th))
            n += 1

        def replies_for(outcome):
            return REPLIES if outcome in ("panic", "failflag", "stuck") else ["truth"]

        # all single-leaf vectors
        for o in OUTCOMES:
            for g in GUARDS:
                for r in replies_for(o):
                    for d in ("success", "revert"):
                        add([dict(outcome=o, guard=g, reply=r)], d)
        # pairs: a leaf with a truthful sat answer next to every other leaf / reply, both orders
        sat_leaf = dict(outcome="panic", guard="eq", reply="truth")
        for o in ("panic", "failflag", "stuck", "success"):
            for g in ("eq", "unreach", "mulunsat"):
                for r in replies_for(o):
                    other = dict(outcome=o, guard=g, reply=r)
                    add([sat_leaf, other], "success")
                    add([other, sat_leaf], "success")
        # pairs without any sat: two failing replies of different classes (precedence err > unknown > stuck)
        for r1, r2 in itertools.permutations(["unknown", "crash_empty", "hang", "spawn_oserror", "truth"], 2):
            add([dict(outcome="panic", guard="unreach", reply=r1), dict(outcome="failflag", guard="unreach", reply=r2)], "success")
            add([dict(outcome="panic", guard="unreach", reply=r1), dict(outcome="stuck", guard="eq", reply=r2)], "success")
        return vecs

    def random_vector(self, ch):
        k = ch.int(1, 4, "v.k")
        leaves = []
        for i in range(k):
            o = ch.choose(["panic", "failflag", "success", "revert", "stuck"], f"v.{i}.o")
            g = ch.choose(GUARDS, f"v.{i}.g")
            r = ch.choose(REPLIES, f"v.{i}.r") if o in ("panic", "failflag", "stuck") else "truth"
            leaves.append(dict(outcome=o, guard=g, reply=r))
        return dict(leaves=leaves, default=ch.choose(["success", "revert"], "v.d"), early_exit=ch.chance(0.3, "v.ee"),
                    cache=ch.chance(0.4, "v.cs"), threads=ch.choose([1, 2, 3, 4], "v.th"))

    # ------------------------------------------------------------------ one case
    def run_one(self, ch, keep_log=False, vector=None, **_):
        import halmos.__main__ as hm

        vec = vector if vector is not None else self.random_vector(ch)
        leaves = vec["leaves"]
        cj, bom = build_contract(leaves, vec["default"])
        solver = ch.choose(["yices", "yices", "yices", "yices", "z3"], "sw.solver")
        preempt_k = ch.choose([0, 0, 0, 10], "sw.preempt")
        timeout_s = 60
        panic_codes = set(PANIC_CODES)
        violations = []
        runs = []
        for twin in range(2):
            observed = []

            def plan(info, observed=observed):
                # which leaf does this query belong to?  the marker of leaf i is asserted positively only on its path:
                # ask the path id recorded at yield time
                pid = info["path_id"]
                leaf_idx = next((o["leaf"] for o in observed if str(o["path_id"]) == pid), None)
                info["leaf"] = leaf_idx
                if leaf_idx is None or leaf_idx >= len(leaves):
                    return "truth"
                r = leaves[leaf_idx]["reply"]
                if info["refined"]:
                    return "truth"
                # parameters of a reply kind are a function of the vector, so that both twins get the same fault
                info["param"] = zlib.crc32(repr((vec, leaf_idx)).encode())
                if r == "slow_over":
                    return "slow"
                if r == "fs_debugdir":
                    return "unknown"  # ... and the directory halmos keeps failed queries in cannot be created
                if r.startswith("fs_"):
                    return "truth"  # the fault sits in the file system; the solver answers whatever file it finds
                if r == "core_truncated":
                    # the solver dies while printing the core: `unsat`, the first name and a piece of the second reach the pipe
                    t = R.truncated_core(info.get("truth_stdout") or "") if info["truth"] == "unsat" else None
                    return ("stdout:" + t) if t else "truth"
                if r in ("core_missing", "core_garbled", "core_empty"):
                    if info["truth"] == "unsat":
                        return {"core_missing": "stdout:unsat\n", "core_garbled": "stdout:unsat\n(<12 <oops\n",
                                "core_empty": "stdout:unsat\n()\n"}[r]
                    return "truth"
                return r

            def fs_plan(path, kind, observed=observed):
                if kind == "debugdir":
                    return "enospc" if any(lf["reply"] == "fs_debugdir" for lf in leaves) else None
                base = os.path.basename(path)
                if ".refined" in base:
                    return None
                pid = base.split(".")[0]
                leaf_idx = next((o["leaf"] for o in observed if str(o["path_id"]) == pid), None)
                if leaf_idx is None or leaf_idx >= len(leaves):
                    return None
                r = leaves[leaf_idx]["reply"]
                if kind == "query" and r == "fs_enospc":
                    return "enospc"
                if kind == "query" and r == "fs_short_write":
                    return ("short", zlib.crc32(repr((vec, leaf_idx, "cut")).encode()))
                if kind == "out" and r == "fs_out_eio" and base.endswith(".out"):
                    return "eio"
                return None

            args = R.make_args(early_exit=vec["early_exit"], cache_solver=vec["cache"], solver_threads=vec["threads"],
                               solver_timeout_assertion=timeout_s,
                               panic_error_codes=set(PANIC_CODES))

            def main(observed=observed):
                orig_rm = hm.run_message

                def tee(ctx, sevm, message, dyn_params):
                    n = 0
                    for ex in orig_rm(ctx, sevm, message, dyn_params):
                        cls = classify_exec(ex, panic_codes)
                        # leaf index = which marker the path pins x to (the first calldata word equals MARK+i)
                        leaf = self._leaf_of(ex, len(leaves))
                        observed.append(dict(path_id=n, cls=cls, leaf=leaf))
                        n += 1
                        yield ex

                hm.run_message = tee
                try:
                    ctx = R.make_contract_ctx(args, "T", "test/T.sol", cj, [SIG], bom)
                    return hm.run_contract(ctx)
                finally:
                    hm.run_message = orig_rm

            out = R.run_under_sim(ch, main, solver=solver, plan=plan, preempt_k=preempt_k, keep_log=keep_log,
                                  unknown_rate=1.0, max_steps=40000, fs_plan=fs_plan)
            runs.append((out, observed))
            v = self.judge(vec, out, observed, timeout_s)
            violations.extend(v)
            if violations:
                break
        if len(runs) == 2 and not violations:
            v0 = self._verdict(runs[0][0])
            v1 = self._verdict(runs[1][0])
            # --early-exit admits one difference: FAIL because a valid counterexample ended the run early
            # the twins are comparable only if the same faults were actually met: a query that one schedule
            # answers from the unsat-core cache never reaches the (faulty) solver in that schedule
            def met(o):
                return sorted((str(h.get("leaf")), h["kind"], h["refined"]) for h in o.stub.history)

            same_faults = met(runs[0][0]) == met(runs[1][0])
            if v0 != v1 and same_faults and not (vec["early_exit"] and "FAIL" in (v0, v1)):
                violations.append(dict(oracle="C05:schedule-dependent-verdict", disc=f"{v0}-vs-{v1}",
                                       detail=f"same test and same solver replies, two schedules: verdict {v0} vs {v1}; vector {vec}"))
        # ---------------- process exit code: halmos' _main on a project directory holding the same artifacts
        main_phase = None
        if not violations and (zlib.crc32(repr(vec).encode()) + ch.pick(3, "sw.mainphase")) % 3 == 0:
            main_phase = self.run_main(ch, vec, cj, solver, timeout_s, panic_codes, keep_log=keep_log)
            violations.extend(main_phase["violations"])
        out0 = runs[0][0]
        faults = {}
        probes = {}
        if main_phase is not None:
            probes["main_phase_runs"] = 1
            probes["main_phase_" + main_phase["extra"]] = 1
            for k, n in main_phase["out"].sim.fault_counts.items():
                if k.startswith(("signal_", "interrupt_")):
                    faults[k] = faults.get(k, 0) + n
        for out, observed in runs:
            for k, n in out.sim.fault_counts.items():
                faults[k] = faults.get(k, 0) + n
            for k, n in getattr(out, "eseam").faults.items():
                faults[k] = faults.get(k, 0) + n
            probes["queries"] = probes.get("queries", 0) + len(out.stub.history)
            probes["refined_queries"] = probes.get("refined_queries", 0) + sum(1 for h in out.stub.history if h["refined"])
            probes["paths"] = probes.get("paths", 0) + len(observed)
            probes["verdict_" + str(self._verdict(out))] = probes.get("verdict_" + str(self._verdict(out)), 0) + 1
            probes["switches"] = probes.get("switches", 0) + out.sim.switches
            probes["cache_hits"] = probes.get("cache_hits", 0) + len(out.cache.hits)
            if any(h["kind"] == "truth" and h["truth"] == "sat" and "f_evm_" in h["stdout"] for h in out.stub.history):
                probes["abstract_model_seen"] = probes.get("abstract_model_seen", 0) + 1
        digest = "|".join(o.sim.digest() for o, _ in runs)
        if main_phase is not None:
            digest += "|main:" + main_phase["out"].sim.digest()
        incon = None
        if any(o.stub.wall_timeouts or any(h["wall_timeout"] for h in o.cache.hits) for o, _ in runs):
            incon, violations = "truthful-solver-wall-timeout", []
        res = dict(violations=violations, inconclusive=incon, faults=faults, probes=probes, digest=digest,
                   shape=repr(vec), nontrivial=probes["queries"] >= 1 and probes["switches"] >= 2,
                   sim_seconds=sum(o.sim.now for o, _ in runs), steps=sum(o.sim.steps for o, _ in runs),
                   descriptor=dict(vector=vec, solver=solver, preempt_k=preempt_k,
                                   verdicts=[self._verdict(o) for o, _ in runs],
                                   queries=[(h["file"], h.get("leaf"), h["kind"], h["truth"]) for h in out0.stub.history][:12],
                                   paths=[(o["path_id"], o["cls"], o["leaf"]) for o in runs[0][1]][:12]),
                   vector=vec if vector is not None else None)
        if keep_log:
            res["log"] = [("stdout", out0.stdout[-1500:]), ("warnings", out0.warnings[-10:])] + list(out0.sim.log[-60:])
            if main_phase is not None:
                res["log"] += [("main-stdout", main_phase["out"].stdout[-800:])] + list(main_phase["out"].sim.log[-400:])
        return res

    def run_main(self, ch, vec, cj, solver, timeout_s, panic_codes, keep_log=False):
        """drive halmos' real entry point (argument parsing, artifact loading, per-contract loop, exit code)"""
        import json
        import shutil
        import tempfile

        import halmos.__main__ as hm

        leaves = vec["leaves"]
        os.environ["PATH"] = os.path.join(os.path.dirname(os.path.dirname(os.path.abspath(__file__))), "tools", "bin") + ":" + os.environ["PATH"]
        root = tempfile.mkdtemp(prefix="c05proj-", dir="/dev/shm" if os.path.isdir("/dev/shm") else None)
        extra = ch.choose(["none", "setup_fails", "passing_contract"], "mp.extra")
        try:
            os.makedirs(root + "/out/T.sol")
            with open(root + "/out/T.sol/T.json", "w") as f:
                json.dump({k: v for k, v in cj.items() if k != "abi_dict"}, f)
            if extra != "none":
                def setup(a):
                    if extra == "setup_fails":
                        a.push(0).push(0).op("REVERT")
                    else:
                        a.op("STOP")
                rt2 = A.build_runtime({"setUp()": setup, "check_ok()": lambda a: a.op("STOP")})
                cj2 = A.contract_json("U", "test/U.sol", rt2, [A.abi_item("setUp()"), A.abi_item("check_ok()")], ast_id=5)
                os.makedirs(root + "/out/U.sol")
                with open(root + "/out/U.sol/U.json", "w") as f:
                    json.dump(cj2, f)
            with open(root + "/foundry.toml", "w") as f:
                f.write("[profile.default]\n")
            observed = []

            def plan(info):
                pid = info["path_id"]
                leaf_idx = next((o["leaf"] for o in observed if str(o["path_id"]) == pid and o["fn"] == "check_f"), None)
                if leaf_idx is None or leaf_idx >= len(leaves) or info["refined"]:
                    return "truth"
                info["param"] = zlib.crc32(repr((vec, leaf_idx)).encode())
                r = leaves[leaf_idx]["reply"]
                if r == "slow_over":
                    return "slow"
                if r.startswith("core_"):
                    return "truth"
                return r

            argv = ["--root", root, "--solver-command", "simsolver", "--no-status", "--solver-threads", str(vec["threads"]),
                    "--solver-timeout-assertion", str(timeout_s * 1000), "--solver-timeout-branching", "0",
                    "--panic-error-codes", ",".join(hex(c) for c in sorted(panic_codes))]
            if vec["early_exit"]:
                argv.append("--early-exit")
            if vec["cache"]:
                argv.append("--cache-solver")

            # SIGINT / SIGTERM at a seeded scheduling point of the main thread: the handler _main registered runs on its stack
            import signal as _signal

            signame = ch.choose([None, None, "SIGINT", "SIGTERM"], "mp.signal")
            sig_steps = ch.choose([ch.pick(60, "mp.sigsteps.a"), ch.pick(1500, "mp.sigsteps.b")], "mp.sigsteps")
            handlers = {}
            sig_second = ch.choose([None, None, ch.pick(60, "mp.sigsecond.d")], "mp.sigsecond")
            sigstate = {"delivered": False, "too_early": False}

            class SignalProxy:
                def __getattr__(self, name):
                    return getattr(_signal, name)

                def signal(self, signum, handler):
                    handlers[int(signum)] = handler

            def deliver():
                num = int(getattr(_signal, signame))
                h = handlers.get(num)
                if h is None:
                    sigstate["too_early"] = True  # before _main installed its handlers: nothing of halmos runs yet
                    return
                sigstate["delivered"] = True
                h(num, None)

            def main():
                orig_rm = hm.run_message
                orig_signal = hm.signal

                def tee(ctx, sevm, message, dyn_params):
                    n = 0
                    for ex in orig_rm(ctx, sevm, message, dyn_params):
                        observed.append(dict(path_id=n, leaf=self._leaf_of(ex, len(leaves)), fn=ctx.info.name))
                        n += 1
                        yield ex

                hm.run_message = tee
                hm.signal = SignalProxy()
                try:
                    return hm._main(argv)
                finally:
                    hm.run_message = orig_rm
                    hm.signal = orig_signal

            irq = None
            if signame:
                irq = [(sig_steps, deliver)] + ([(sig_steps + sig_second, deliver)] if sig_second is not None else [])
            out = R.run_under_sim(ch, main, solver=solver, plan=plan, unknown_rate=1.0, max_steps=40000, interrupt=irq, keep_log=keep_log)
        finally:
            shutil.rmtree(root, ignore_errors=True)
        vio = []
        res = out.results
        if sigstate["delivered"]:
            out.sim.fault("signal_" + signame)
            want = 128 + int(getattr(_signal, signame))
            if out.outcome == "deadlock":
                vio.append(dict(oracle="C05:hang", disc="signal-handler",
                                detail=f"{signame} at step {sig_steps}: halmos never exited; parked {out.sim.deadlock_info}"))
            elif out.outcome == "done" and not (isinstance(out.exception, SystemExit) and out.exception.code == want):
                vio.append(dict(oracle="C05:exitcode", disc="signal-exit",
                                detail=f"{signame} at step {sig_steps}: expected the process to exit with {want}, got "
                                       f"exception {out.exception!r} / result {getattr(res, 'exitcode', None)}"))
            return dict(violations=vio, out=out, extra=extra)
        if out.outcome == "deadlock":
            vio.append(dict(oracle="C05:hang", disc="main-deadlock", detail=f"_main never returned: {out.sim.deadlock_info}"))
        elif out.outcome == "done":
            if res is None or out.exception is not None:
                if not isinstance(out.exception, SystemExit):
                    vio.append(dict(oracle="C05:exitcode", disc="main-raised",
                                    detail=f"_main raised {out.exception!r}; stdout tail {out.stdout[-300:]!r}"))
            else:
                per_test = {}
                for cpath, results in (res.test_results or {}).items():
                    for r in results:
                        per_test[(cpath.rsplit(":", 1)[-1], r.name)] = r.exitcode
                selected = [("T", SIG)] + ([("U", "check_ok()")] if extra != "none" else [])
                all_pass = all(per_test.get(t) == 0 for t in selected)
                if (res.exitcode == 0) != all_pass:
                    vio.append(dict(oracle="C05:exitcode", disc=f"exit={res.exitcode}:all-pass={all_pass}:{extra}",
                                    detail=f"process exit code {res.exitcode} but per-test exit codes {per_test} for the selected tests {selected} "
                                           f"(extra contract: {extra}); vector {vec}"))
        return dict(violations=vio, out=out, extra=extra)

    @staticmethod
    def _leaf_of(ex, nleaves):
        """the leaf a path belongs to: the marker its first argument is pinned to by a positive equality"""
        import z3

        last = None
        for c in ex.path.conditions:
            if z3.is_eq(c) and c.num_args() == 2:
                a, b = c.arg(0), c.arg(1)
                for u, v in ((a, b), (b, a)):
                    if z3.is_bv_value(v) and u.decl().kind() == z3.Z3_OP_UNINTERPRETED and u.decl().name().startswith("p_x_"):
                        i = v.as_long() - MARK
                        if 0 <= i < nleaves:
                            last = i
        # (a path that passed leaf i's first guard but failed its second one goes on to later leaves, so the
        # last positive marker is the one that counts; paths ending in the default leaf are not queried)
        return nleaves if last is None else last

    @staticmethod
    def _verdict(out):
        if out.exception is not None or out.results is None:
            return "EXC"
        if not out.results:
            return "NORESULT"
        return VERDICT_OF_EXIT.get(out.results[0].exitcode, f"exit{out.results[0].exitcode}")

    def judge(self, vec, out, observed, timeout_s):
        vio = []
        leaves = vec["leaves"]
        if out.outcome == "deadlock":
            return [dict(oracle="C05:hang", disc="deadlock",
                         detail=f"run_test never returned: parked {out.sim.deadlock_info}; vector {vec}")]
        if out.outcome == "step-cap":
            return []
        for name, et, text, kind, tb in out.sim.task_errors:
            vio.append(dict(oracle="C05:thread-exception", disc=et, detail=f"task {name} died with {et}: {text}"))
        verdict = self._verdict(out)
        if verdict in ("EXC", "NORESULT"):
            vio.append(dict(oracle="C05:no-result", disc=verdict,
                            detail=f"run_contract gave no TestResult ({out.exception!r}); stdout tail {out.stdout[-300:]!r}"))
            return vio
        printed = R.verdict_lines(out.stdout).get(SIG)
        if printed is not None and printed != verdict:
            vio.append(dict(oracle="C05:printed-vs-exitcode", disc=f"{printed}-vs-{verdict}",
                            detail=f"printed [{printed}] but TestResult.exitcode means {verdict}"))
        # ---- final reply class per potential / stuck path, from what the simulated solver delivered
        hist = out.stub.history
        by_path = {}
        for h in hist:
            by_path.setdefault(h["path_id"], []).append(h)

        def delivered_class(h):
            if h["kind"] == "spawn_oserror":
                return "err"
            if h["kind"] == "hang" or (h["duration"] != float("inf") and h["duration"] > timeout_s) or h["duration"] == float("inf"):
                return "unknown"  # time limit
            return first_line_class(h["stdout"])

        counts = {"sat": 0, "unsat": 0, "unknown": 0, "err": 0}
        cache_hits = list(out.cache.hits)
        valid_sat_delivered = False
        n_stuck = 0
        n_normal = sum(1 for o in observed if o["cls"] == "normal")
        main_thread_spawn_error = False
        incomplete = False
        for o in observed:
            hs = by_path.get(str(o["path_id"]), [])
            fs_reply = leaves[o["leaf"]]["reply"] if (o["leaf"] is not None and o["leaf"] < len(leaves)) else ""
            if o["cls"] == "potential":
                if fs_reply == "fs_enospc" and not hs:
                    counts["err"] += 1  # the query file could not be written: the job fails before any solver starts
                    continue
                if fs_reply == "fs_out_eio" and hs and not any(h["refined"] for h in hs):
                    counts["err"] += 1  # the solver answered, storing its output failed: the job ends with an exception
                    continue
                if not hs:
                    if vec["cache"] and cache_hits:
                        # answered from the unsat-core cache: what counts is what the solver would have said
                        hit = cache_hits.pop(0)
                        counts["sat" if hit["truth"] == "sat" else "unsat" if hit["truth"] == "unsat" else "unknown"] += 1
                        if hit["truth"] == "sat":
                            valid_sat_delivered = True
                    else:
                        incomplete = True  # no query: only legal when the executor was shut down (early exit)
                    continue
                first = [h for h in hs if not h["refined"]]
                refined = [h for h in hs if h["refined"]]
                h = first[0] if first else hs[0]
                cls = delivered_class(h)
                if cls == "sat" and refined:
                    cls = delivered_class(refined[0])
                    h = refined[0]
                counts[cls] += 1
                if cls == "sat" and "f_evm_" not in h["stdout"]:
                    valid_sat_delivered = True
            elif o["cls"] == "stuck":
                if not hs and fs_reply == "fs_enospc":
                    main_thread_spawn_error = True  # the exception surfaces in the main thread and aborts the test
                    continue
                if not hs:
                    incomplete = True
                    continue
                h = hs[0]
                if h["kind"] == "spawn_oserror" or fs_reply == "fs_out_eio":
                    main_thread_spawn_error = True
                elif delivered_class(h) != "unsat":
                    n_stuck += 1
        if main_thread_spawn_error:
            # the stuck-path confirmation runs in the main thread: a spawn failure there aborts the test (ERROR);
            # under --early-exit a valid counterexample may have ended the exploration before (FAIL)
            expected = {"ERROR"} | ({"FAIL"} if (vec["early_exit"] and valid_sat_delivered) else set())
        elif vec["early_exit"] and valid_sat_delivered:
            expected = {"FAIL"}
        elif incomplete and not vec["early_exit"]:
            expected = {"ERROR", "FAIL", "TIMEOUT"}  # cannot happen without early exit; anything but PASS
        elif counts["sat"] > 0:
            expected = {"FAIL"}
        elif counts["err"] > 0:
            expected = {"ERROR"}
        elif counts["unknown"] > 0:
            expected = {"TIMEOUT"}
        elif n_stuck > 0:
            expected = {"ERROR"}
        elif n_normal == 0:
            expected = {"ERROR"}
        else:
            expected = {"PASS"}
        if verdict not in expected:
            kind = "pass-but-" + ("sat" if counts["sat"] else "err" if counts["err"] else "unknown" if counts["unknown"]
                                  else "stuck" if n_stuck else "nosuccess") if verdict == "PASS" else f"{verdict}-expected-{'/'.join(sorted(expected))}"
            vio.append(dict(oracle="C05:verdict-vs-table", disc=kind,
                            detail=f"verdict {verdict}, table says {sorted(expected)}: replies {counts}, stuck {n_stuck}, normal {n_normal}, "
                                   f"paths {[(o['path_id'], o['cls'], o['leaf']) for o in observed]}, "
                                   f"queries {[(h['file'], h['kind'], h['truth'], first_line_class(h['stdout'])) for h in hist]}, vector {vec}"))
        return vio


def factory():
    return C05Check()


if __name__ == "__main__":
    from hsim.runner import main_for

    sys.exit(main_for(factory))
