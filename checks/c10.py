"""C10 - incomplete exploration is always reported (run-sim).

Scenario kinds (one per run, swarm-selected):
  loop        counted loop with a symbolic trip count (n & mask) in a regular test, failure iff the loop ran exactly K times
  loop_call   the same loop inside a helper reached by a nested call
  loop_const  a loop with a concrete trip count larger than --loop (must never be cut)
  loop_setup  the loop runs in setUp over a symbolic value pinned by vm.assume, the test fails iff it ran K times
  width       2^k input-selected paths with --width smaller than that, failure in one of them
  depth       a long straight-line prefix with --depth smaller than its length; optionally run twice / in two contracts in
              one process (history: the same warning text may already have been printed)
  stuck       an opcode halmos does not support, at top level or inside a nested call, on one input-selected path
Ground truth (does some admissible input fail?) is known by construction and confirmed on the reference EVM.
Oracle: a PASS verdict for a test that some admissible input makes fail, or whose path got stuck, needs a loop-bound /
width / depth warning for that test in the captured halmos log (or num_bounded_loops > 0).
"""

from __future__ import annotations

import hashlib
import os
import sys

sys.path.insert(0, os.path.dirname(os.path.dirname(os.path.abspath(__file__))))

from evm import artifact as A  # noqa: E402
from evm.refevm import RefEVM, World  # noqa: E402
from hsim import runsim as R  # noqa: E402

TEST_ADDR = 0x7FA9385BE102AC3EAC297483DD6233D62B3E1496
CALLER = 0x1804C8AB1F12E6BBF3894D4083F33E07309D1F38
VERDICT_OF_EXIT = {0: "PASS", 1: "FAIL", 2: "TIMEOUT", 3: "ERROR", 4: "ERROR", 5: "ERROR"}
KINDS = ["loop", "loop", "loop_call", "loop_const", "loop_setup", "width", "depth", "depth", "stuck", "inv_loop"]


def emit_counted_loop(a, bound_emit, ctr=0x1C0, shape="while"):
    """i = 0; while (i < bound) i++;  leaves i at memory ctr.  shape "taken": the same loop with the test at the bottom and the
    continuing edge on the *taken* side of the JUMPI (Yul / via-IR / Vyper style), so --loop cuts the taken side"""
    top, end = a.fresh("ltop"), a.fresh("lend")
    a.push(0).push(ctr).op("MSTORE")
    if shape == "taken":
        chk = a.fresh("lchk")
        a.jump(chk)
        a.label(top)
        a.push(1).push(ctr).op("MLOAD").op("ADD").push(ctr).op("MSTORE")
        a.label(chk)
        bound_emit(a)
        a.push(ctr).op("MLOAD").op("LT").jumpi(top)  # i < bound -> next iteration
        return
    a.label(top)
    bound_emit(a)
    a.push(ctr).op("MLOAD").op("LT").op("ISZERO").jumpi(end)  # !(i < bound) -> exit
    a.push(1).push(ctr).op("MLOAD").op("ADD").push(ctr).op("MSTORE")
    a.jump(top)
    a.label(end)


def emit_fail_if_eq(a, k, ctr=0x1C0, from_storage=False):
    ok = a.fresh("ok")
    if from_storage:
        a.push(0).op("SLOAD")
    else:
        a.push(ctr).op("MLOAD")
    a.push(k).op("EQ").op("ISZERO").jumpi(ok)
    A.emit_panic(a, 1)
    a.label(ok)
    a.op("STOP")


class Scenario:
    def __init__(self, ch, force_kind=None):
        self.ch = ch
        self.kind = ch.choose(KINDS, "s.kind")
        self.shape = ch.choose(["while", "while", "taken"], "s.shape")
        if force_kind:
            self.kind = force_kind
        self.loop = ch.choose([2, 1, 3, 4], "s.loop")
        self.mask = ch.choose([7, 3, 15], "s.mask")
        self.k = ch.int(0, self.mask, "s.k")
        self.options = {"loop": self.loop}
        self.sig = "check_c(uint256)"
        self.history = "once"
        self.nested = False
        k = self.kind
        fns = {}
        abis = [A.abi_item(self.sig, ["n"])]
        if k == "inv_loop":
            abis = []
        if k in ("loop", "loop_call"):
            def loop_body(a):
                emit_counted_loop(a, lambda a_: (a_.push(self.mask), a_.push(4), a_.op("CALLDATALOAD"), a_.op("AND")), shape=self.shape)
                emit_fail_if_eq(a, self.k)
            if k == "loop":
                fns[self.sig] = loop_body
            else:
                def outer(a):
                    sel = int.from_bytes(A.selector("helper(uint256)"), "big")
                    a.push(sel << 224).push(0x300).op("MSTORE")
                    a.push(4).op("CALLDATALOAD").push(0x304).op("MSTORE")
                    a.push(0).push(0).push(0x24).push(0x300).push(0).op("ADDRESS").push(0xFFFF).op("CALL")
                    ok = a.fresh("ok")
                    a.jumpi(ok)
                    a.op("RETURNDATASIZE").push(0).push(0).op("RETURNDATACOPY")
                    a.op("RETURNDATASIZE").push(0).op("REVERT")
                    a.label(ok)
                    a.op("STOP")
                fns[self.sig] = outer
                fns["helper(uint256)"] = loop_body
                abis.append(A.abi_item("helper(uint256)", ["n"]))
            self.fail_inputs = [self.k] if self.k <= self.mask else []
            self.cut_expected = self.k > self.loop  # informational
        elif k == "loop_const":
            self.c = ch.choose([5, 3, 8], "s.c")
            self.loop = ch.choose([1, 2], "s.loopc")
            self.options["loop"] = self.loop

            def body(a):
                emit_counted_loop(a, lambda a_: a_.push(self.c), shape=self.shape)
                # fails iff n == 9 after the concrete loop ran c times
                ok = a.fresh("ok")
                a.push(4).op("CALLDATALOAD").push(9).op("EQ").op("ISZERO").jumpi(ok)
                emit_fail_if_eq(a, self.c)
                a.label(ok)
                a.op("STOP")
            fns[self.sig] = body
            self.fail_inputs = [9]
        elif k == "loop_setup":
            self.t = ch.int(0, self.mask, "s.t")  # the pinned trip count
            self.k = self.t if ch.chance(0.7, "s.kt") else ch.int(0, self.mask, "s.k2")

            def setup(a):
                A.emit_vm_call(a, "createUint256(string)", [0x20, 1, ord("s") << 248], addr=A.SVM_ADDR, mem=0x300, ret_size=0x20)
                a.op("POP")
                # vm.assume(s & mask == t)
                A.emit_vm_call(a, "assume(bool)", [lambda a_: (a_.push(self.mask), a_.push(0x400), a_.op("MLOAD"), a_.op("AND"),
                                                                a_.push(self.t), a_.op("EQ"))], mem=0x500)
                a.op("POP")
                emit_counted_loop(a, lambda a_: (a_.push(self.mask), a_.push(0x400), a_.op("MLOAD"), a_.op("AND")), shape=self.shape)
                a.push(0x1C0).op("MLOAD").push(0).op("SSTORE")
                a.op("STOP")

            def body(a):
                emit_fail_if_eq(a, self.k, from_storage=True)
            fns[self.sig] = body
            fns["setUp()"] = setup
            abis.append(A.abi_item("setUp()"))
            self.fail_inputs = [0] if self.k == self.t else []
        elif k == "width":
            self.bits = ch.int(2, 4, "s.bits")
            self.width = ch.int(1, (1 << self.bits) - 1, "s.width")
            self.options["width"] = self.width
            self.target = ch.pick(1 << self.bits, "s.target")

            def body(a):
                # a decision tree on the low bits of n: 2^bits leaves, one of them fails
                def rec(level, acc):
                    if level == self.bits:
                        if acc == self.target:
                            A.emit_panic(a, 1)
                        else:
                            a.op("STOP")
                        return
                    els = a.fresh("b0")
                    a.push(1 << level).push(4).op("CALLDATALOAD").op("AND").op("ISZERO").jumpi(els)
                    rec(level + 1, acc | (1 << level))
                    a.label(els)
                    rec(level + 1, acc)
                rec(0, 0)
            fns[self.sig] = body
            self.fail_inputs = [self.target]
        elif k == "depth":
            self.pad = ch.choose([40, 120, 300], "s.pad")
            self.depth = ch.choose([20, 60, 200, 1000], "s.depth")
            self.options["depth"] = self.depth
            self.history = ch.choose(["once", "twice", "two_contracts", "two_tests"], "s.hist")

            def body(a):
                # a short successful path (n < 3) and a long one that ends in the failure for n == 7
                go = a.fresh("long")
                a.push(3).push(4).op("CALLDATALOAD").op("LT").op("ISZERO").jumpi(go)
                a.op("STOP")
                a.label(go)
                for i in range(self.pad):
                    a.push(i).op("POP")
                emit_fail_if_eq_n(a, 7)
            fns[self.sig] = body
            if self.history == "two_tests":
                fns["check_d(uint256)"] = body
                abis.append(A.abi_item("check_d(uint256)", ["n"]))
            self.fail_inputs = [7]
        elif k == "inv_loop":
            # invariant test: the target's mutator runs the counted loop and stores the trip count; the invariant says v != K
            from evm.asm import initcode_for

            # where the counted loop sits: in the target's mutator (it stores the trip count) or in the invariant function itself
            # (the mutator stores n & mask, the invariant counts up to the stored value); a second mutator touching another slot
            # gives the frontier a state on which nothing is cut, explored before or after the one on which the loop is cut
            self.loop_in_invariant = ch.chance(0.4, "s.loopinv")

            def target_mut(a):
                if self.loop_in_invariant:
                    a.push(self.mask).push(4).op("CALLDATALOAD").op("AND").push(0).op("SSTORE").op("STOP")
                    return
                emit_counted_loop(a, lambda a_: (a_.push(self.mask), a_.push(4), a_.op("CALLDATALOAD"), a_.op("AND")), shape=self.shape)
                a.push(0x1C0).op("MLOAD").push(0).op("SSTORE").op("STOP")

            def target_other(a):
                a.push(1).push(1).op("SSTORE").op("STOP")

            def target_get(a):
                a.push(0).op("SLOAD").push(0x80).op("MSTORE").push(0x20).push(0x80).op("RETURN")

            tf = [("run(uint256)", target_mut, A.abi_item("run(uint256)", ["n"])), ("other()", target_other, A.abi_item("other()"))]
            if ch.chance(0.5, "s.torder"):
                tf.reverse()
            if not ch.chance(0.7, "s.tother"):
                tf = [t for t in tf if t[0] != "other()"]
            self.target_rt = A.build_runtime({**{n_: f_ for n_, f_, _ in tf}, "getV()": target_get})
            self.target_abis = [ab for _, _, ab in tf] + [A.abi_item("getV()", outputs=["uint256"], mutability="view")]
            tinit = initcode_for(self.target_rt)
            self.target_init = tinit
            self.k = max(self.k, 1)  # v == 0 initially: K = 0 would already fail at depth 0
            self.options["invariant_depth"] = 1
            self.sig = "invariant_v()"
            self.history = ch.choose(["once", "twice", "two_contracts"], "s.hist")

            def setup(a):
                tag = a.fresh("tinit")
                a.push(len(tinit)).ref(tag).push(0x200).op("CODECOPY")
                a.push(len(tinit)).push(0x200).push(0).op("CREATE").push(0).op("SSTORE").op("STOP")
                a.mark(tag).raw(tinit)

            def invariant(a):
                sel = int.from_bytes(A.selector("getV()"), "big")
                a.push(sel << 224).push(0x300).op("MSTORE")
                a.push(0x20).push(0x320).push(4).push(0x300).push(0).op("SLOAD").push(0xFFFF).op("STATICCALL").op("POP")
                if self.loop_in_invariant:
                    emit_counted_loop(a, lambda a_: (a_.push(0x320), a_.op("MLOAD")), shape=self.shape)
                    a.push(0x1C0).op("MLOAD").push(0x320).op("MSTORE")
                ok = a.fresh("ok")
                a.push(0x320).op("MLOAD").push(self.k).op("EQ").op("ISZERO").jumpi(ok)
                A.emit_panic(a, 1)
                a.label(ok)
                a.op("STOP")

            fns["setUp()"] = setup
            fns[self.sig] = invariant
            abis = [A.abi_item("setUp()"), A.abi_item(self.sig)]
            self.fail_inputs = [self.k]  # run(K) breaks the invariant after one call
        else:  # stuck
            self.nested = ch.chance(0.6, "s.nested")
            self.guard = ch.int(0, 9, "s.guard")

            def stuck_op(a):
                k2 = ch.choose(["badop", "symoffset"], "s.stuckkind")
                if k2 == "badop":
                    a.items.append(("op", 0x0C))
                else:
                    a.push(4).op("CALLDATALOAD").op("MLOAD").op("POP")  # symbolic memory offset
                a.op("STOP")

            def helper(a):
                stuck_op(a)

            def body(a):
                ok = a.fresh("ok")
                a.push(self.guard).push(4).op("CALLDATALOAD").op("LT").op("ISZERO").jumpi(ok)  # n < guard -> fine
                a.op("STOP")
                a.label(ok)
                if self.nested:
                    sel = int.from_bytes(A.selector("helper(uint256)"), "big")
                    a.push(sel << 224).push(0x300).op("MSTORE")
                    a.push(4).op("CALLDATALOAD").push(0x304).op("MSTORE")
                    a.push(0).push(0).push(0x24).push(0x300).push(0).op("ADDRESS").push(0xFFFF).op("CALL")
                    a.op("POP").op("STOP")
                else:
                    stuck_op(a)
            fns[self.sig] = body
            if self.nested:
                fns["helper(uint256)"] = helper
                abis.append(A.abi_item("helper(uint256)", ["n"]))
            self.fail_inputs = []
        self.fns, self.abis = fns, abis
        self.rt = A.build_runtime(fns)

    def artifacts(self, name="T"):
        cj = A.contract_json(name, f"test/{name}.sol", self.rt, self.abis)
        return cj

    def extra_artifacts(self):
        if self.kind != "inv_loop":
            return []
        tcj = A.contract_json("LoopTarget", "src/LoopTarget.sol", self.target_rt, self.target_abis, creation=self.target_init, ast_id=20)
        return [("LoopTarget.sol", "LoopTarget", tcj)]

    def reference_fails(self, n):
        w = World()
        w.code[TEST_ADDR] = self.rt
        w.storage[TEST_ADDR] = {}
        w.transient[TEST_ADDR] = {}
        sv = getattr(self, "t", 0)

        def cheat(evm, fr, sub, to, args):
            if to == A.SVM_ADDR:
                return True, sv.to_bytes(32, "big")
            return True, b""

        evm = RefEVM(w, cheat=cheat, cheat_addrs=(A.VM_ADDR, A.SVM_ADDR), addr_oracle=lambda *a: 0xC0DE, max_steps=50000)
        if self.kind == "inv_loop":
            fr = evm.run_tx(TEST_ADDR, CALLER, CALLER, 0, A.selector("setUp()"))
            if fr.error is not None:
                return False
            fr = evm.run_tx(0xC0DE, CALLER, CALLER, 0, A.selector("run(uint256)") + n.to_bytes(32, "big"))
            if fr.error is not None:
                return False
            fr = evm.run_tx(TEST_ADDR, CALLER, CALLER, 0, A.selector(self.sig))
            return fr.error == "revert" and fr.output[:4] == bytes.fromhex("4e487b71")
        if "setUp()" in self.fns:
            fr = evm.run_tx(TEST_ADDR, CALLER, CALLER, 0, A.selector("setUp()"))
            if fr.error is not None:
                return False
        fr = evm.run_tx(TEST_ADDR, CALLER, CALLER, 0, A.selector(self.sig) + n.to_bytes(32, "big"))
        return fr.error == "revert" and fr.output[:4] == bytes.fromhex("4e487b71") and len(fr.output) == 36


def emit_fail_if_eq_n(a, k):
    ok = a.fresh("ok")
    a.push(4).op("CALLDATALOAD").push(k).op("EQ").op("ISZERO").jumpi(ok)
    A.emit_panic(a, 1)
    a.label(ok)
    a.op("STOP")


FLAG_WORDS = ("loop unrolling bound", "incomplete execution")


class C10Check:
    property_id = "C10"
    name = "c10-run-sim"
    level = "exploration"
    rule = ("(stuck scenarios: the feasibility query of the stuck path is answered truthfully / unknown / crash / garbage / error line; invariant scenarios: once, twice in one process, two contracts) each run = one scenario (symbolic counted loop in a regular test / inside a nested call / in setUp, concrete loop longer "
            "than --loop, 2^k paths under --width, straight-line prefix under --depth with histories {once, twice in one process, "
            "same signature in two contracts, two tests of one contract}, unsupported opcode or symbolic memory offset at top level "
            "or inside a nested call) with parameters --loop 1-4, mask 3/7/15, K, width, depth drawn by seed; run_contract runs under "
            "the simulator (solver threads / latencies / uid stream seeded). Ground truth: the failing inputs are known by construction "
            "and confirmed on the reference EVM. Oracle: for every TestResult with exit code PASS whose test has a failing admissible "
            "input or a stuck path, the captured halmos log of that run must contain the loop-bound / width / depth warning naming the "
            "test (or num_bounded_loops > 0); a concrete loop must never lead to PASS. distinct = distinct (scenario parameters, "
            "event-log digest); non-trivial = the scenario's bound was actually smaller than what the failing input needs, or a path "
            "got stuck")
    assumptions = ["ground truth by construction, confirmed on the reference EVM for the failing inputs",
                   "warnings are read from the 'halmos' / 'halmos.unique' loggers; the process-global de-duplication set is reset only at "
                   "the start of a run (histories inside one run share it, as in a real halmos process)"]
    components = {
        "real": ["halmos.__main__ run_contract / setup / run_test", "halmos.sevm (jumpi unroll accounting, depth cut)", "halmos.logs"],
        "stub": ["thread scheduling", "ThreadPoolExecutor (model)", "Popen / psutil (simulated)", "clock", "uuid4", "forge"],
    }
    tiers = {
        "quick": {"budget_s": 45, "run_timeout": 90, "shrink_budget": 45},
        "thorough": {"budget_s": 600, "run_timeout": 90, "shrink_budget": 240},
    }

    def prepare(self):
        import halmos.__main__  # noqa: F401

    def run_one(self, ch, keep_log=False, **_):
        import halmos.__main__ as hm

        sc = Scenario(ch)
        solver = ch.choose(["yices", "yices", "yices", "yices", "yices", "z3"], "sw.solver")
        threads = ch.choose([1, 2], "sw.threads")
        args = R.make_args(solver_threads=threads, panic_error_codes={1}, **sc.options)
        cj = sc.artifacts("T")
        cj2 = sc.artifacts("U")
        bom = A.build_out_map([("T.sol", "T", cj), ("U.sol", "U", cj2)] + sc.extra_artifacts())
        sigs = [sc.sig] + (["check_d(uint256)"] if sc.history == "two_tests" else [])
        rounds = []

        def main():
            out = []
            plan = {"once": [("T", cj)], "twice": [("T", cj), ("T", cj)], "two_contracts": [("T", cj), ("U", cj2)],
                    "two_tests": [("T", cj)]}[sc.history]
            for name, j in plan:
                ctx = R.make_contract_ctx(args, name, f"test/{name}.sol", j, sigs, bom)
                n0 = len(lc_records())
                res = hm.run_contract(ctx)
                out.append((name, res, n0, len(lc_records())))
            return out

        # the log capture lives in run_under_sim; expose its record list to main() through a cell
        cell = {}

        def lc_records():
            return cell["lc"].records if "lc" in cell else []

        import hsim.engine as E

        orig_enter = E.LogCapture.__enter__

        def enter(self_lc):
            r = orig_enter(self_lc)
            cell["lc"] = self_lc
            return r

        E.LogCapture.__enter__ = enter
        try:
            # a branching query answered `unknown` (solver timeout) makes a decidable loop condition undecided
            unknown_rate = ch.choose([0.0, 0.0, 0.3, 1.0], "sw.unk") if sc.kind.startswith("loop") else 0.0
            # the feasibility query of a stuck path may itself go wrong: anything but `unsat` must keep the path reported
            fr = ch.choose([0.0, 0.5, 1.0], "sw.fr") if sc.kind == "stuck" else 0.0
            out = R.run_under_sim(ch, main, solver=solver, keep_log=keep_log, max_steps=60000, unknown_rate=unknown_rate,
                                  fault_rate=fr, kinds=["unknown", "crash_empty", "garbage", "error_line"])
        finally:
            E.LogCapture.__enter__ = orig_enter
        vio = []
        probes = {"kind_" + sc.kind: 1}
        incon = "truthful-solver-wall-timeout" if out.stub.wall_timeouts else None
        fails = [n for n in sc.fail_inputs if sc.reference_fails(n)]
        if sc.fail_inputs and not fails:
            incon = incon or "witness-not-confirmed"
        nontrivial = False
        if out.outcome == "deadlock":
            vio.append(dict(oracle="C10:hang", disc="deadlock", detail=str(out.sim.deadlock_info)))
        elif out.results is not None and incon is None:
            for ri, (cname, results, n0, n1) in enumerate(out.results):
                logs = out.warnings[n0:n1]
                for r in results:
                    verdict = VERDICT_OF_EXIT.get(r.exitcode)
                    probes["verdict_" + str(verdict)] = probes.get("verdict_" + str(verdict), 0) + 1
                    flagged = bool(r.num_bounded_loops) or any(any(wd in m for wd in FLAG_WORDS) and r.name.split("(")[0] in m for m in logs) \
                        or any("setUp" in m and "loop unrolling bound" in m for m in logs)
                    if sc.kind == "inv_loop" and any("loop unrolling bound" in m and ("run(uint256)" in m or "invariant_v" in m) for m in logs):
                        flagged = True  # the cut is reported for the function whose loop was cut
                    if flagged:
                        probes["flagged"] = probes.get("flagged", 0) + 1
                    if verdict != "PASS":
                        continue
                    if sc.kind == "stuck":
                        nontrivial = True
                        vio.append(dict(oracle="C10:silent-cut", disc="stuck-path-but-pass:" + ("nested" if sc.nested else "top"),
                                        detail=f"[PASS] for {r.name} although the path n >= {sc.guard} stops at an unsupported feature "
                                               f"({'inside a nested call' if sc.nested else 'at top level'}); log {logs[-3:]}"))
                    elif fails:
                        nontrivial = True
                        if sc.kind == "loop_const":
                            vio.append(dict(oracle="C10:concrete-loop-cut", disc=f"loop={sc.loop}:trip={sc.c}",
                                            detail=f"[PASS] although n=9 fails after a loop with the concrete trip count {sc.c}; --loop {sc.loop}"))
                        elif not flagged:
                            if sc.kind == "inv_loop":
                                vio.append(dict(oracle="C10:silent-cut", disc=("invariant-function" if getattr(sc, "loop_in_invariant", False) else "invariant-target") + ("" if ri == 0 else ":" + sc.history),
                                                detail=f"[PASS] for {r.name} (--invariant-depth 1, --loop {sc.loop}) without any bound warning although "
                                                       f"the single call run({fails[0]}) breaks v != {sc.k} on the reference EVM: the loop inside the "
                                                       f"target was cut after {sc.loop} iterations; log of that run: {logs[-3:]}"))
                                continue
                            where = {"once": "first-run", "twice": "repeat-in-process", "two_contracts": "second-contract",
                                     "two_tests": "second-test"}[sc.history] if (ri > 0 or r.name != sc.sig) else "first-run"
                            vio.append(dict(oracle="C10:silent-cut", disc=f"{sc.kind}:{where}",
                                            detail=f"[PASS] for {cname}.{r.name} without any bound warning although input {fails[0]} fails on the "
                                                   f"reference EVM; scenario {sc.kind} options {sc.options} mask {sc.mask} K {sc.k}; "
                                                   f"history {sc.history} (result #{ri}); log of that run: {logs[-3:]}"))
            if not any(results for _, results, _, _ in out.results) and sc.kind != "loop_setup":
                vio.append(dict(oracle="C10:no-result", disc=sc.kind, detail=f"no TestResult; stdout {out.stdout[-300:]!r}"))
        shape = repr((sc.kind, sc.options, sc.mask, sc.k, sc.history, getattr(sc, "pad", 0), getattr(sc, "bits", 0),
                      getattr(sc, "target", 0), sc.nested))
        faults = dict(out.sim.fault_counts)
        for kf, nf in out.eseam.faults.items():
            faults[kf] = faults.get(kf, 0) + nf
        res = dict(violations=vio, inconclusive=incon, faults=faults, probes=probes, digest=out.sim.digest(),
                   shape=shape, nontrivial=nontrivial or probes.get("flagged", 0) > 0, sim_seconds=out.sim.now, steps=out.sim.steps,
                   descriptor=dict(kind=sc.kind, loop_shape=sc.shape, options=sc.options, mask=sc.mask, K=sc.k, history=sc.history, fails=fails,
                                   results=[(c, [(r.name, r.exitcode, r.num_bounded_loops) for r in rs]) for c, rs, _, _ in (out.results or [])],
                                   warnings=[m[:120] for m in out.warnings[-4:]]))
        if keep_log:
            res["log"] = [("stdout", out.stdout[-1200:]), ("warnings", out.warnings[-10:]), ("code", sc.rt.hex())]
        return res


def factory():
    return C10Check()


if __name__ == "__main__":
    from hsim.runner import main_for

    sys.exit(main_for(factory))
