"""C11 - the solver query equals the path's constraints; refinement is exact (run-sim, seam monitor).

Every query that crosses the solver-process seam in C03-style runs (regular tests whose paths extend a
sliced setUp state, with and without --cache-solver) is re-parsed from exactly the bytes the simulated
solver process reads and compared with the Path.conditions snapshot taken when halmos serialised it.
"""

from __future__ import annotations

import os
import re
import sys

sys.path.insert(0, os.path.dirname(os.path.dirname(os.path.abspath(__file__))))

import z3  # noqa: E402

from checks.c03 import PANIC_SET, BYTES_LENGTHS, Case  # noqa: E402
from evm import artifact as A  # noqa: E402
from hsim import runsim as R  # noqa: E402
from hsim.runsim import reference_refine  # noqa: E402

RLIMIT = 600_000
_CMDS = re.compile(r"^\((check-sat|get-model|get-unsat-core|set-option[^)]*|exit)\)\s*$", re.M)


def parse(text: str):
    return list(z3.parse_smt2_string(_CMDS.sub("", text)))


def uninterpreted_names(terms):
    seen, out, stack = set(), set(), list(terms)
    while stack:
        t = stack.pop()
        if t.get_id() in seen:
            continue
        seen.add(t.get_id())
        if z3.is_app(t):
            if t.decl().kind() == z3.Z3_OP_UNINTERPRETED:
                out.add(t.decl().name())
            stack.extend(t.children())
    return out


def conj_equiv(A, B):
    """-> True / False / None(unknown): is the conjunction of A equivalent to the conjunction of B"""
    sa = {z3.simplify(a).get_id(): a for a in A}
    sb = {z3.simplify(b).get_id(): b for b in B}
    keep = [z3.simplify(a) for a in A] + [z3.simplify(b) for b in B]  # keep the simplified terms alive (ids)
    only_a = [a for i, a in sa.items() if i not in sb and not z3.is_true(z3.simplify(a))]
    only_b = [b for i, b in sb.items() if i not in sa and not z3.is_true(z3.simplify(b))]
    del keep
    if not only_a and not only_b:
        return True
    for lhs, rhs in ((A, only_b), (B, only_a)):
        if not rhs:
            continue
        s = z3.Solver()
        s.set(rlimit=RLIMIT)
        for x in lhs:
            s.add(x)
        s.add(z3.Not(z3.And(*rhs)) if len(rhs) > 1 else z3.Not(rhs[0]))
        r = s.check()
        if r == z3.sat:
            return False
        if r != z3.unsat:
            return None
    return True


class QueryMonitor:
    def __init__(self):
        self.records = []  # (smtlib, conditions, assertion ids, cache flag)
        self.violations = []
        self.probes = {}
        self._orig = None
        self.by_file = {}

    def probe(self, k, n=1):
        self.probes[k] = self.probes.get(k, 0) + n

    def install(self):
        import halmos.sevm as sevm

        mon = self
        self._orig = sevm.Path.to_smt2

        def to_smt2(path, args):
            q = mon._orig(path, args)
            mon.records.append([q.smtlib, list(path.conditions), list(q.assertions), bool(args.cache_solver),
                                path.sliced is not None, False])
            return q

        sevm.Path.to_smt2 = to_smt2
        return self

    def remove(self):
        if self._orig is not None:
            import halmos.sevm as sevm

            sevm.Path.to_smt2 = self._orig
            self._orig = None

    def on_query(self, info, text):
        if text is None:
            return
        try:
            self._judge(info, text)
        except z3.Z3Exception as e:
            self.violations.append(dict(oracle="C11:query-not-parsable", disc=str(e)[:40].replace("\n", " "),
                                        detail=f"{info['file']}: z3 cannot parse the dumped query: {str(e)[:300]}"))

    def _judge(self, info, text):
        if info["refined"]:
            base = self.by_file.get(info["file"].replace(".refined", ""))
            if base is None:
                self.probe("refined_without_base")
                return
            self.probe("refined_judged")
            # the refined text must activate exactly the assertions the original activated (--cache-solver: `:named` lines);
            # without them every `(=> |id| c)` is vacuous and the query says nothing about the path
            base_named = set(re.findall(r":named <(\d+)>", base))
            got_named = set(re.findall(r":named <(\d+)>", text))
            if base_named != got_named:
                self.violations.append(dict(oracle="C11:named-encoding", disc="refined-name-set-differs",
                                            detail=f"{info['file']}: the original query names {len(base_named)} assertions, the refined one "
                                                   f"{len(got_named)}; assertions that are not named are not asserted at all"))
                return
            got = parse(text)
            want = parse(reference_refine(base))
            left = sorted(n for n in uninterpreted_names(got) if re.match(r"f_evm_(bvmul|bvudiv|bvurem|bvsdiv|bvsrem)_\d+$", n))
            if left:
                self.violations.append(dict(oracle="C11:refine-inexact", disc="left-uninterpreted",
                                            detail=f"{info['file']}: abstractions still uninterpreted after refinement: {left}"))
                return
            eq = conj_equiv(got, want)
            if eq is False:
                self.violations.append(dict(oracle="C11:refine-inexact", disc="not-the-exact-operation",
                                            detail=f"{info['file']}: the refined query is not equivalent to the original with every "
                                                   f"f_evm_ mul/div/rem abstraction replaced by the exact EVM operation"))
            elif eq is None:
                self.probe("equiv_unknown")
            return
        matching = [r for r in self.records if r[0] and r[0] in text]
        if not matching:
            self.probe("query_without_snapshot")
            return
        # every query halmos builds is handed to the solver at most once: a text that only matches queries already consumed
        # was built for an earlier path (a stale file the solver was pointed at), not for the path being solved now
        rec = next((r for r in matching if not r[5]), None)
        if rec is None:
            self.violations.append(dict(oracle="C11:query-not-equivalent", disc="stale-file",
                                        detail=f"{info['file']}: the text the solver reads was built for an earlier path (it matches "
                                               f"{len(matching)} earlier quer{'y' if len(matching) == 1 else 'ies'}, all solved already); "
                                               f"the query built for the current path was never written"))
            return
        rec[5] = True
        self.by_file[info["file"]] = text
        smtlib, conds, ids, cache, sliced = rec[:5]
        self.probe("queries_judged")
        self.probe("queries_extending_sliced_state" if not sliced else "queries_of_sliced_path")
        got = parse(text)
        if cache:
            self.probe("cache_form_judged")
            named = set(re.findall(r":named <(\d+)>", text))
            if named != set(ids) or any(f"(=> |{i}|" not in text.replace("\n", " ") and f"(=> |{i}| " not in text for i in ids if False):
                self.violations.append(dict(oracle="C11:named-encoding", disc="name-set-differs",
                                            detail=f"{info['file']}: named assertions {sorted(named)[:6]}... vs assertion ids {sorted(ids)[:6]}..."))
                return
            # activating every name must give back the plain conjunction
            names = {str(i): z3.Bool(str(i)) for i in ids}
            subst = [(b, z3.BoolVal(True)) for b in names.values()]
            got = [z3.simplify(z3.substitute(g, *subst)) for g in got]
            got = [g for g in got if not z3.is_true(g)]
        eq = conj_equiv(got, conds)
        if eq is False:
            self.violations.append(dict(oracle="C11:query-not-equivalent", disc="cache" if cache else "plain",
                                        detail=f"{info['file']}: the dumped query ({len(got)} assertions) is not equivalent to the "
                                               f"{len(conds)} constraints of the path it was serialised from"))
        elif eq is None:
            self.probe("equiv_unknown")


class C11Check:
    property_id = "C11"
    name = "c11-run-sim"
    level = "exploration"
    rule = ("each run = one generated test contract of the C03 grammar (guard chains with mul/div/mod/addmod/mulmod/exp/hash, concrete or "
            "symbolic setUp whose path is sliced: one setUp constraint is related to the stored state, one is not) executed by run_contract "
            "under the simulator, --cache-solver on/off, both solvers. Monitor at the solver-process seam: the bytes the simulated solver "
            "reads are re-parsed with z3 and compared with the Path.conditions snapshot taken inside Path.to_smt2 (structural equality "
            "after simplify, else rlimit-bounded equivalence in both directions); cache form: the :named set equals the assertion ids and "
            "activating all names gives the plain conjunction; *.refined.smt2: equivalent to the original text with every f_evm_ "
            "mul/udiv/urem/sdiv/srem declaration replaced by its exact EVM definition (independent rewrite), none left uninterpreted. "
            "distinct = distinct (contract hash, event-log digest); non-trivial = >=1 query judged")
    assumptions = ["z3's SMT-LIB parser as the reader of the dumped file", "equivalence queries are rlimit-bounded; unknown = inconclusive, counted",
                   "the snapshot of Path.conditions is taken by wrapping Path.to_smt2 in the harness process (observation only)"]
    components = {
        "real": ["halmos.sevm.Path.to_smt2", "halmos.solve.dump / refine / solve_end_to_end", "run_contract down to the solver spawn"],
        "stub": ["thread scheduling", "ThreadPoolExecutor (model)", "Popen / psutil (simulated)", "clock", "uuid4", "forge"],
    }
    tiers = {
        "quick": {"budget_s": 60, "run_timeout": 90, "shrink_budget": 60},
        "thorough": {"budget_s": 600, "run_timeout": 90, "shrink_budget": 240},
    }

    def prepare(self):
        import halmos.__main__  # noqa: F401

    def run_one(self, ch, keep_log=False, **_):
        import halmos.__main__ as hm

        solver = ch.choose(["yices", "yices", "yices", "yices", "yices", "z3"], "sw.solver")
        layout = ch.choose(["solidity", "generic"], "sw.layout")
        cache = ch.chance(0.5, "sw.cache")
        threads = ch.choose([1, 2, 4], "sw.threads")
        unknown_rate = ch.choose([0.0, 0.0, 0.3], "sw.unk")
        case = Case(ch)
        rt, cj, bom = case.build()
        # optionally a second contract with a test of the same name, both dumping into one --dump-smt-directory
        shared_dump = ch.chance(0.25, "sw.shareddump")
        case2 = None
        if shared_dump:
            case2 = Case(ch, name=case.sig.split("(")[0])
            rt2, cj2, _ = case2.build()
            cj2 = A.contract_json("U", "test/U.sol", rt2, cj2["abi"], ast_id=7)
            bom = A.build_out_map([("T.sol", "T", cj), ("U.sol", "U", cj2)])
        mon = QueryMonitor()

        class Stub(R.SolverStub):
            def on_query(self, info, text):
                mon.on_query(info, text)

        def main():
            import tempfile

            extra = {"dump_smt_directory": tempfile.mkdtemp(prefix="c11dump-")} if shared_dump else {}
            args = R.make_args(solver_threads=threads, cache_solver=cache, storage_layout=layout,
                               panic_error_codes=set(PANIC_SET), default_bytes_lengths=list(BYTES_LENGTHS), **extra)
            ctx = R.make_contract_ctx(args, "T", "test/T.sol", cj, [case.sig], bom)
            res = hm.run_contract(ctx)
            if shared_dump:
                ctx2 = R.make_contract_ctx(args, "U", "test/U.sol", cj2, [case2.sig], bom)
                hm.run_contract(ctx2)
            return res

        mon.install()
        try:
            out = R.run_under_sim(ch, main, solver=solver, keep_log=keep_log, unknown_rate=unknown_rate, stub_cls=Stub,
                                  max_steps=60000)
        finally:
            mon.remove()
        seen = set()
        vio = []
        for v in mon.violations:
            if (v["oracle"], v["disc"]) not in seen:
                seen.add((v["oracle"], v["disc"]))
                vio.append(v)
        probes = dict(mon.probes)
        probes["queries"] = len(out.stub.history)
        incon = "truthful-solver-wall-timeout" if out.stub.wall_timeouts else None
        import hashlib

        faults = dict(out.sim.fault_counts)
        for k, n in out.eseam.faults.items():
            faults[k] = faults.get(k, 0) + n
        res = dict(violations=vio, inconclusive=incon, faults=faults, probes=probes, digest=out.sim.digest(),
                   shape=hashlib.sha1(rt).hexdigest()[:12], nontrivial=probes.get("queries_judged", 0) >= 1,
                   sim_seconds=out.sim.now, steps=out.sim.steps,
                   descriptor=dict(sig=case.sig, guards=[g[0] for g in case.guards], setup_sym=case.setup_sym, cache=cache, solver=solver,
                                   layout=layout, queries=[(h["file"], h["truth"]) for h in out.stub.history][:8], probes=probes))
        if keep_log:
            res["log"] = [("stdout", out.stdout[-800:]), ("code", rt.hex())]
        return res


def factory():
    return C11Check()


if __name__ == "__main__":
    from hsim.runner import main_for

    sys.exit(main_for(factory))
