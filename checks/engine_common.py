"""Shared run function of the engine-sim checks (C01, C02, C08, C09, C20b).

One run = one generated world (1-6 contracts, symbolic calldata / caller / origin / value /
balances) explored by halmos' SEVM under seeded faults (branching solver `unknown`, symbol-suffix
stream, gc), judged against the reference EVM on concrete inputs that satisfy each reported path
(pathval) and on generated inputs (coverage).
"""

from __future__ import annotations

import hashlib
import os
import sys
import zlib

sys.path.insert(0, os.path.dirname(os.path.dirname(os.path.abspath(__file__))))

import z3  # noqa: E402

from evm import gen  # noqa: E402
from evm.refevm import StepLimit, Unsupported  # noqa: E402
from hsim import engine as E  # noqa: E402

QUIRKS = ("msize_write_only", "rdc_zero_size_no_oob", "static_value_call_ok")


def draw_feat(ch, bias: dict | None = None) -> gen.Feat:
    """swarm: every feature is switched on/off per run"""
    f = gen.Feat()
    f.n_inputs = ch.int(1, 3, "f.n_inputs")
    f.max_expr_depth = ch.int(1, 3, "f.exprd")
    f.max_stmts = ch.int(1, 5, "f.stmts")
    f.max_block_depth = ch.int(0, 2, "f.blockd")
    for name, p in (("storage", 0.7), ("transient", 0.4), ("mapping", 0.7), ("hashing", 0.6), ("memory", 0.7),
                    ("logs", 0.3), ("calls", 0.5), ("creates", 0.25), ("loops", 0.35), ("env", 0.5),
                    ("signed", 0.6), ("mulmod", 0.4), ("exp", 0.3), ("copyops", 0.4), ("msize", 0.3),
                    ("balance_reads", 0.4), ("value_calls", 0.5), ("symbolic_target", 0.15),
                    ("raw_symbolic_slot", 0.1)):
        setattr(f, name, ch.chance(p, "f." + name))
    f.guards = 0 if ch.chance(0.15, "f.noguards") else ch.int(1, 3, "f.guards")
    f.if_weight = ch.int(0, 4, "f.ifw")
    f.n_callees = ch.int(1, 3, "f.ncallees")
    f.call_depth = ch.int(1, 3, "f.calldepth")
    if bias:
        f.__dict__.update({k: v for k, v in bias.items() if v is not None})
    return f


def draw_world(ch, feat: gen.Feat, options: dict) -> E.EWorld:
    ws = gen.WorldSpec(ch, feat).build()
    accounts = {a: c for a, c in ws.addrs.items()}
    accounts[gen.TARGET] = ws.main
    calldata = []
    if feat.selector:
        calldata.append(("con", bytes.fromhex("aabbccdd")))
    for i in range(feat.n_inputs):
        calldata.append(("sym", f"in_cd{i}", 32))
    caller = None if ch.chance(0.5, "w.symcaller") else gen.EOA1
    origin = None if ch.chance(0.3, "w.symorigin") else gen.EOA1
    value = None if ch.chance(0.4, "w.symvalue") else ch.choose([0, 1, 10**18], "w.value")
    balances = {}
    if feat.value_calls or feat.balance_reads:
        for a in [gen.TARGET] + list(ws.addrs)[:2]:
            k = ch.pick(4, "w.bal")
            if k == 0:
                continue
            balances[a] = None if k == 1 else ch.choose([1, 1000, 10**18, 2**64], "w.balv")
    return E.EWorld(accounts=accounts, target=gen.TARGET, calldata=calldata, caller=caller, origin=origin,
                    value=value, balances=balances, options=options)


def draw_sigma(ch, inp: E.Inputs, w: E.EWorld, harvested: list[int], small_keys=False) -> dict:
    s = {}
    for name, v in inp.vars.items():
        nbits = v.size()
        if name.startswith("in_bal_"):
            s[name] = ch.choose([0, 1, 999, 1000, 10**18, 2**64 - 1, 5], "s.bal")
        elif name == "in_value":
            s[name] = ch.choose([0, 1, 7, 1000, 10**18, 2**64], "s.val")
        elif name in ("in_caller", "in_origin"):
            s[name] = ch.choose([gen.EOA1, gen.EOA2, gen.TARGET, 0, 1, 2, 3] + list(w.accounts)[:2], "s.addr")
        else:
            k = ch.pick(4, "s.k")
            if small_keys and k >= 2:
                k = 1
            if k == 0 and harvested:
                s[name] = (ch.choose(harvested, "s.h") + ch.choose([0, 1, -1], "s.hd")) & ((1 << nbits) - 1)
            elif k == 1:
                s[name] = ch.pick(8, "s.small")
            else:
                s[name] = ch.bits(nbits, "s.bits")
    return s


def harvest_constants(codes) -> list[int]:
    out = set()
    for code in codes:
        i = 0
        while i < len(code):
            b = code[i]
            if 0x60 <= b <= 0x7F:
                k = b - 0x5F
                out.add(int.from_bytes(code[i + 1:i + 1 + k], "big"))
                i += k
            i += 1
    return sorted(out)[:64]


def quick_member(conds, subst):
    """True / False if substituting sigma decides every condition syntactically, else None"""
    undecided = False
    for c in conds:
        r = z3.simplify(z3.substitute(c, *subst))
        if z3.is_false(r):
            return False
        if not z3.is_true(r):
            undecided = True
    return None if undecided else True


def _all_frames(fr):
    out = [fr]
    for t in fr.trace:
        if hasattr(t, "trace"):
            out.extend(_all_frames(t))
    return out


def diagnose(w, conc, created, fr_ctx, m, ex, world_addrs, base_mism, cheat=None, cheat_addrs=()):
    """which single known deviation (quirk) of the reference makes the mismatch disappear, if any"""
    from evm.cheats_ref import CheatStop

    import itertools

    if hasattr(cheat, "for_pair") or w.symbolic_storage:
        return None
    # single deviations first; then combinations: one execution may run into two known defects at once (e.g. MSIZE after a read
    # *and* a value-bearing CALL in a static frame) - the mismatch is then named after the first of them, both being listed
    combos = [(q,) for q in QUIRKS] + list(itertools.combinations(QUIRKS, 2)) + [tuple(QUIRKS)]
    for combo in combos:
        try:
            evm, world, fr = E_run_reference(w, conc, created, quirks=frozenset(combo), cheat=cheat, cheat_addrs=cheat_addrs)
        except (Unsupported, StepLimit, CheatStop):
            continue
        mm = E.compare_frames(m, fr_ctx, fr)
        if not mm and fr.error is None:
            mm = E.final_state_mismatches(m, ex, world, world_addrs)
        if not mm:
            return combo[0]
    return None


def E_run_reference(w, conc, created, quirks=frozenset(), cheat=None, cheat_addrs=(), sender_hook=None, initial=None):
    from evm.refevm import DEFAULT_BLOCK, RefEVM, World

    world = World()
    if initial:
        world.initial = dict(initial)
    for a, c in w.accounts.items():
        world.code[a] = c
        world.storage[a] = {}
        world.transient[a] = {}
    for a, v in conc["balances"].items():
        world.balance[a] = v
    state = {"i": 0}

    def oracle(scheme, creator, init, salt, n):
        i = state["i"]
        state["i"] += 1
        return created[i] if i < len(created) else 0xEEEE0000 + i

    evm = RefEVM(world, block={**DEFAULT_BLOCK, **(w.block or {})}, addr_oracle=oracle, cheat=cheat,
                 cheat_addrs=cheat_addrs, quirks=quirks)
    evm.sender_hook = sender_hook
    fr = evm.run_tx(w.target, conc["caller"], conc["origin"], conc["value"], conc["data"])
    return evm, world, fr


def engine_run(ch, *, bias=None, unknown_rates=(0.0, 0.0, 0.03, 0.3, 1.0), n_sigmas=6, max_paths=48,
               keep_log=False, check_pruned=True, options_bias=None, small_keys=False, world_fn=None, cheat=None,
               cheat_addrs=(), path_hook=None, symbolic_storage_rate=0.0):
    """one simulated run; returns (violations, stats dict)"""
    # ---------------- swarm (drawn first so that it shrinks last)
    unknown_rate = ch.choose(list(unknown_rates), "sw.unknown")
    uid_mode = ch.choose(["random", "sequential", "repeat"], "sw.uid")
    gc_rate = ch.choose([0.0, 0.3], "sw.gc")
    options = dict(loop=ch.choose([2, 2, 1, 3, 4], "sw.loop"),
                   storage_layout=ch.choose(["solidity", "solidity", "generic"], "sw.layout"))
    if options_bias:
        options.update(options_bias)
    from evm.cheats_ref import CheatStop

    if world_fn is not None:
        feat = gen.Feat()
        w = world_fn(ch, options)
    else:
        feat = draw_feat(ch, bias)
        feat.generic_layout = options["storage_layout"] == "generic"
        w = draw_world(ch, feat, options)
        if symbolic_storage_rate and ch.chance(symbolic_storage_rate, "sw.symstorage"):
            w.symbolic_storage = (gen.TARGET,)

    seams = E.EngineSeams(ch, unknown_rate=unknown_rate, uid_mode=uid_mode, gc_rate=gc_rate,
                          record_pruned=check_pruned).install()
    violations = []
    probes = {}
    incon = None

    def probe(k, n=1):
        probes[k] = probes.get(k, 0) + n

    try:
        inp, sevm, reports, info, solver = E.run_sevm(w, seams, max_paths=max_paths)
    except (ArithmeticError, RecursionError, AssertionError, TypeError, ValueError, AttributeError, KeyError,
            IndexError, NotImplementedError, z3.Z3Exception) as e:
        # an internal exception of halmos aborts the whole exploration (the test would be reported
        # as ERROR): nothing is reported, so nothing can be judged here.  Counted, not a violation
        # of the properties decided by this engine.
        seams.remove()
        import traceback as _tb

        where = _tb.extract_tb(e.__traceback__)[-1]
        return [], dict(faults=dict(seams.faults), probes={"sevm_exception:" + type(e).__name__: 1},
                        inconclusive=None, shape="crash", npaths=0, queries=seams.n_queries,
                        descriptor=dict(sevm_exception=f"{type(e).__name__}: {e} at {where.filename.rsplit('/', 1)[-1]}:{where.lineno}",
                                        main_code=w.accounts[gen.TARGET].hex()[:400], paths=[]),
                        world=w, digest="crash:" + type(e).__name__)
    finally:
        seams.active = False
    try:
        world_addrs = list(w.accounts) + [gen.EOA1, gen.EOA2]
        flagged = info["bounded_loops"] > 0 or info["truncated"] or any("incomplete execution" in x for x in info["warnings"])
        probe("paths", len(reports))
        probe("paths_stuck", sum(r.stuck for r in reports))
        probe("runs_flagged_bounded", int(flagged))
        harvested = harvest_constants(w.accounts.values())
        vars_ = inp.vars
        pvs = {}

        def pathval_for(r):
            pv = pvs.get(r.index)
            if pv is None:
                terms = E.terms_of_context(r.context, [])
                terms += [z3.Select(r.ex.balance, z3.BitVecVal(a, 160)) for a in world_addrs]
                for c in r.ex.code.values():
                    t = E.to_z3(c._code)
                    if t is not None and not isinstance(t, (int, bytes)):
                        terms.append(t)
                pv = E.PathVal(r.conditions, terms)
                pvs[r.index] = pv
            return pv

        def judge(r, m, sigma, origin):
            """compare path r under model m (which assigns sigma) with the reference"""
            conc = inp.concrete(sigma)
            created = E.created_addresses(m, r.context)
            pair_model = cheat.for_pair(m, r) if hasattr(cheat, "for_pair") else None
            initial = None
            if w.symbolic_storage:
                initial, const_reads = E.initial_reads(m, r.context, set(w.symbolic_storage))
                probe("initial_reads", len(initial))
                if const_reads:
                    a_, sl_, v_ = const_reads[0]
                    violations.append(dict(
                        oracle="ENGINE:initial-not-unconstrained", disc="constant-initial-value",
                        detail=f"path {r.index}: with symbolic storage enabled, the first read of the never-written slot {a_:#x}[{sl_:#x}] returns the "
                               f"constant {v_:#x} instead of an unconstrained initial value", kind="initial", kinds=["load-mismatch"]))
                    return
            try:
                if pair_model is not None:
                    evm, world, fr = E_run_reference(w, conc, created, cheat=pair_model.handler, cheat_addrs=cheat_addrs,
                                                     sender_hook=pair_model.resolve_sender)
                    if pair_model.fresh_problems:
                        violations.append(dict(oracle="ENGINE:fresh-symbol", disc="malformed-value",
                                               detail=f"path {r.index}, input {origin}: {pair_model.fresh_problems[:3]}", kind="fresh"))
                        return
                else:
                    evm, world, fr = E_run_reference(w, conc, created, cheat=cheat, cheat_addrs=cheat_addrs, initial=initial)
            except CheatStop as cs:
                probe("ref_" + cs.kind)
                if cs.kind == "assert-failed":
                    probe("pairs_judged")
                    if r.error_kind != "fail-cheat":
                        # a failed assertion does not end the execution (it raises the failure flag), so the continuing path
                        # legitimately contains this input too; what is required is *a* path with the failure containing it
                        need_fail_path.append((dict(sigma), origin, cs.text, r.index))
                elif cs.kind == "assume-rejected":
                    probe("pairs_judged")
                    violations.append(dict(
                        oracle="ENGINE:assume-semantics", disc="path-admits-rejected-input",
                        detail=f"path {r.index} ({r.error_kind or 'success'}) contains input {origin} { {k: hex(v) for k, v in sigma.items()} } "
                               f"which vm.assume rejects", kind="assume"))
                return
            except Unsupported:
                probe("ref_unsupported")
                return
            except StepLimit:
                probe("ref_steplimit")
                return
            pv = pathval_for(r)
            if evm.opaque_used or pv.opaque:
                probe("opaque_skipped")
                return
            if r.error_kind == "fail-cheat":
                probe("pairs_judged")
                violations.append(dict(
                    oracle="ENGINE:assert-semantics", disc="failure-but-relation-holds",
                    detail=f"path {r.index} ends in an assertion failure ({str(r.context.output.error)[:120]}) but for input {origin} "
                           f"{ {k: hex(v) for k, v in sigma.items()} } every vm.assert* relation on the way holds", kind="assert"))
                return
            probe("pairs_judged")
            frames = _all_frames(fr)
            probe("ref_subframes", len(frames) - 1)
            probe("ref_failed_subframes", sum(1 for f in frames[1:] if f.error is not None))
            probe("ref_loads", sum(1 for f in frames for t in f.trace if isinstance(t, tuple) and t[0] == "sload"))
            mm = E.compare_frames(m, r.context, fr)
            if any(k == "stuck-subframe" for k, _ in mm):
                probe("stuck_subframe")
                return
            if not mm and fr.error is None:
                mm = E.final_state_mismatches(m, r.ex, world, world_addrs + created)
            if mm:
                q = diagnose(w, conc, created, r.context, m, r.ex, world_addrs + created, mm, cheat, cheat_addrs)
                kind = mm[0][0]
                disc = f"quirk={q}" if q else f"{kind}"
                subs = [f for f in _all_frames(fr) if f is not fr]
                violations.append(dict(oracle="ENGINE:endstate-mismatch", disc=disc,
                                       detail=f"path {r.index} ({r.error_kind or 'success'}), input {origin} "
                                              f"{ {k: hex(v) for k, v in sigma.items()} }: " + "; ".join(t for _, t in mm[:4]),
                                       kind=kind, kinds=sorted({k for k, _ in mm}), quirk=q,
                                       sub_kinds=sorted({k for k, t in mm if "/" in t.split(":", 1)[0]}),
                                       ref_subframes=len(subs),
                                       ref_failed_subframes=sum(1 for f in subs if f.error is not None)))
                return "quirk" if q else "mismatch"
            return "match"

        need_fail_path = []
        # ---------------- model-first: at least one sigma per satisfiable reported path
        nonstuck = [r for r in reports if not r.stuck]
        for r in nonstuck:
            pv = pathval_for(r)
            st, m = pv.solve()
            if st == "unknown":
                probe("pathval_unknown")
                continue
            if st == "unsat":
                probe("paths_vacuous")
                continue
            probe("paths_with_model")
            sigma = {n: E.ev_int(m, v) for n, v in vars_.items()}
            judge(r, m, sigma, "model")
            if path_hook is not None:
                path_hook(r, pv, probe, violations)
        # ---------------- generated sigmas: membership in every path + coverage
        for k in range(n_sigmas):
            sigma = draw_sigma(ch, inp, w, harvested, small_keys)
            subst = [(vars_[n], z3.BitVecVal(v, vars_[n].size())) for n, v in sigma.items()]
            conc = inp.concrete(sigma)
            members = []
            unknown_any = False
            stuck_member = False
            for r in reports:
                pv = pathval_for(r)
                st, m = pv.solve([(vars_[n], v) for n, v in sigma.items()])
                if st == "sat":
                    if r.stuck:
                        stuck_member = True
                    else:
                        members.append((r, m))
                elif st == "unknown":
                    unknown_any = True
                    probe("pathval_unknown")
            statuses = [judge(r, m, sigma, f"gen{k}") for r, m in members]
            if len(members) > 1:
                probe("sigma_in_several_paths")
            # coverage (C02): every path that contains the input ends differently from the EVM -> its behaviour is in no path
            if statuses and all(s_ == "mismatch" for s_ in statuses) and not flagged and not unknown_any and not stuck_member:
                violations.append(dict(
                    oracle="ENGINE:input-uncovered", disc="behaviour-in-no-path",
                    detail=f"input { {k_: hex(v_) for k_, v_ in sigma.items()} } is contained in {len(members)} reported path(s) "
                           f"({[r_.index for r_, _ in members]}), none of which ends like the reference execution of that input "
                           f"(see the endstate mismatch of the same run); its behaviour is represented by no path", kind="uncovered"))
            # coverage (C02)
            if not members and not stuck_member and not unknown_any:
                try:
                    if hasattr(cheat, "for_pair"):
                        pm = cheat.for_pair(None, None)
                        evm, world, fr = E_run_reference(w, conc, [], cheat=pm.handler, cheat_addrs=cheat_addrs,
                                                         sender_hook=pm.resolve_sender)
                    else:
                        evm, world, fr = E_run_reference(w, conc, [], cheat=cheat, cheat_addrs=cheat_addrs)
                    ref_ok = not evm.opaque_used
                except (Unsupported, StepLimit):
                    ref_ok = False
                except CheatStop as cs:
                    # an input vm.assume rejects must not be covered; one that fails an assertion must be
                    probe("uncovered_" + cs.kind)
                    ref_ok = cs.kind == "assert-failed"
                    fr = type("F", (), {"error": "assertion failure", "output": b""})()
                if ref_ok and max(conc["balances"].values(), default=0) <= 2**64:
                    if flagged:
                        probe("uncovered_but_flagged")
                    else:
                        violations.append(dict(
                            oracle="ENGINE:input-uncovered", disc="no-path-contains-input",
                            detail=f"input { {k: hex(v) for k, v in sigma.items()} } is contained in none of the "
                                   f"{len(reports)} reported paths, exploration not flagged as bounded; reference outcome: "
                                   f"{fr.error or 'success'} {fr.output.hex()[:64]}", kind="uncovered",
                            ref_errors=sorted({f_.error for f_ in (_all_frames(fr)[1:] if hasattr(fr, "trace") else []) if f_.error})))
            else:
                probe("sigma_covered")
        # ---------------- inputs that fail an assertion must be in a path that carries the failure
        fail_paths = [r for r in reports if r.error_kind == "fail-cheat"]
        for sigma, origin, text, ridx in need_fail_path[:16]:
            found = False
            for r in fail_paths:
                st, _m = pathval_for(r).solve([(vars_[n], v) for n, v in sigma.items()])
                if st in ("sat", "unknown"):
                    found = True
                    break
            if not found:
                violations.append(dict(
                    oracle="ENGINE:assert-semantics", disc="relation-false-but-no-failure",
                    detail=f"input {origin} { {k: hex(v) for k, v in sigma.items()} } makes {text} false (it is in path {ridx}), but none of the "
                           f"{len(fail_paths)} paths that end in an assertion failure contains it", kind="assert", cheat=text))
                break
        # ---------------- pruned alternatives (C02)
        if check_pruned:
            n_checked = 0
            for conds, cond in seams.pruned:
                if n_checked >= 12:
                    break
                n_checked += 1
                pv = E.PathVal(list(conds) + [cond])
                st, m = pv.solve()
                if st == "sat":
                    violations.append(dict(
                        oracle="ENGINE:pruned-feasible", disc="unsat-verdict-for-satisfiable-branch",
                        detail=f"a branch was discarded as infeasible but has a model under the standard interpretation: "
                               f"cond={str(cond)[:200]}", kind="pruned"))
                    break
                probe("pruned_checked")
    except z3.Z3Exception as e:
        incon = f"z3:{str(e)[:60]}"
    stats = dict(
        faults=dict(seams.faults), probes=probes, inconclusive=incon,
        shape=repr((sorted((a, zlib.crc32(c)) for a, c in w.accounts.items()), w.caller, w.origin, w.value,
                    sorted(w.balances.items(), key=lambda x: x[0]), sorted(options.items()))),
        npaths=len(reports), queries=seams.n_queries,
        descriptor=dict(options=options, unknown_rate=unknown_rate, uid_mode=uid_mode, gc_rate=gc_rate,
                        n_accounts=len(w.accounts), main_len=len(w.accounts[gen.TARGET]),
                        features=sorted(k for k, v in feat.__dict__.items() if v is True),
                        paths=[(r.index, r.error_kind or "success") for r in reports][:12],
                        main_code=w.accounts[gen.TARGET].hex()[:400]),
        world=w,
    )
    seams.remove()
    # the digest covers what the simulated run did (world, reported paths, branching queries, injected faults, verdicts);
    # harness-side probe counters (e.g. how often the rlimit-bounded path validator gave up) are not part of the run
    stats["digest"] = hashlib.sha1(repr((stats["shape"], stats["descriptor"]["paths"], seams.n_queries,
                                         sorted(seams.faults.items()),
                                         [(v["oracle"], v["disc"]) for v in violations])).encode()).hexdigest()
    return violations, stats
