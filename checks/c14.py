"""C14 - prank, state-setting cheatcodes and fresh symbols behave as specified (engine-sim with a reference cheat model).

World: a main contract executes a seeded history (<= 8 steps) of prank-family cheatcodes, calls / static calls /
creations of reporter contracts (which return the msg.sender and tx.origin they observe), calls to a helper that makes
nested calls, a helper that pranks on its own, cheatcode calls in between, state-setting cheatcodes followed by reads,
and fresh-symbol cheatcodes; every observation is written to successive storage slots of main.
"""

from __future__ import annotations

import os
import sys

sys.path.insert(0, os.path.dirname(os.path.dirname(os.path.abspath(__file__))))

from checks.c01 import C01Check  # noqa: E402
from evm import cheats_ref14 as CR  # noqa: E402
from evm import gen  # noqa: E402
from evm.asm import Asm, initcode_for  # noqa: E402
from hsim import engine as E  # noqa: E402

M256 = (1 << 256) - 1
R_ADDR, N_ADDR, H_ADDR, ST_ADDR = 0x3000, 0x3100, 0x3200, 0x3300
P1, P2, O1 = 0xBEEF01, 0xBEEF02, 0x0A11CE


def reporter_runtime():
    a = Asm()
    a.op("CALLER").push(0).op("MSTORE").op("ORIGIN").push(0x20).op("MSTORE").op("CALLVALUE").push(0x40).op("MSTORE")
    a.push(0x60).push(0).op("RETURN")
    return a.assemble()


def nested_runtime():
    # returns (my msg.sender, what R saw as sender, what R saw as origin)
    a = Asm()
    a.push(0x40).push(0x20).push(0).push(0).push(0).push(R_ADDR).push(0xFFFF).op("CALL").op("POP")
    a.op("CALLER").push(0).op("MSTORE")
    a.push(0x60).push(0).op("RETURN")
    return a.assemble()


def pranking_helper_runtime():
    # vm.prank(P2); R.call(); a second R.call() (no longer pranked); returns both senders
    a = Asm()
    a.push(int.from_bytes(CR.S["prank"], "big") << 224).push(0x100).op("MSTORE").push(P2).push(0x104).op("MSTORE")
    a.push(0).push(0).push(0x24).push(0x100).push(0).push(CR.VM).push(0xFFFF).op("CALL").op("POP")
    a.push(0x20).push(0).push(0).push(0).push(0).push(R_ADDR).push(0xFFFF).op("CALL").op("POP")
    a.push(0x20).push(0x20).push(0).push(0).push(0).push(R_ADDR).push(0xFFFF).op("CALL").op("POP")
    a.push(0x40).push(0).op("RETURN")
    return a.assemble()


def stateful_runtime():
    # getter of slot calldata[0]
    a = Asm()
    a.push(0).op("CALLDATALOAD").op("SLOAD").push(0).op("MSTORE").push(0x20).push(0).op("RETURN")
    return a.assemble()


def created_init():
    rt = Asm()
    rt.push(0).op("SLOAD").push(0).op("MSTORE").push(1).op("SLOAD").push(0x20).op("MSTORE").push(0x40).push(0).op("RETURN")
    pro = Asm()
    pro.op("CALLER").push(0).op("SSTORE").op("ORIGIN").push(1).op("SSTORE")
    return initcode_for(rt.assemble(), pro)


class Builder:
    def __init__(self, ch, n_in):
        self.ch, self.n_in = ch, n_in
        self.a = Asm()
        self.slot = 0x10
        self.data = []
        self.steps = []

    def obs(self):
        """store the word on the stack top into the next observation slot"""
        self.a.push(self.slot).op("SSTORE")
        self.slot += 1

    def addr_arg(self, lbl, allow_sym=True):
        ch = self.ch
        if allow_sym and ch.chance(0.35, lbl + ".sym"):
            i = ch.pick(self.n_in, lbl + ".i")
            return lambda a: (a.push(32 * i), a.op("CALLDATALOAD"), a.push(CR.MASK160), a.op("AND"))
        v = ch.choose([P1, P2, O1, gen.EOA1, R_ADDR], lbl + ".c")
        return lambda a: a.push(v)

    def word_arg(self, lbl):
        ch = self.ch
        if ch.chance(0.5, lbl + ".sym"):
            i = ch.pick(self.n_in, lbl + ".i")
            return lambda a: (a.push(32 * i), a.op("CALLDATALOAD"))
        v = ch.choose([0, 1, 7, 1 << 64, M256, 12345], lbl + ".c")
        return lambda a: a.push(v)

    def vm_call(self, sel: bytes, words, addr=CR.VM, ret=0):
        a = self.a
        a.push(int.from_bytes(sel, "big") << 224).push(0x400).op("MSTORE")
        for i, w in enumerate(words):
            if callable(w):
                w(a)
            else:
                a.push(w)
            a.push(0x404 + 32 * i).op("MSTORE")
        a.push(ret).push(0x600).push(4 + 32 * len(words)).push(0x400).push(0).push(addr).push(0xFFFF).op("CALL").op("POP")

    def call_reporter(self, kind, to=R_ADDR, nret=3):
        a = self.a
        a.push(0x20 * nret).push(0x700)
        a.push(0).push(0)
        if kind == "CALL":
            a.push(0)
        if callable(to):
            to(a)
        else:
            a.push(to)
        a.push(0xFFFF).op(kind).op("POP")
        for i in range(nret):
            a.push(0x700 + 32 * i).op("MLOAD")
            self.obs()

    def step(self, k, lbl):
        ch, a = self.ch, self.a
        self.steps.append(k)
        if k in ("prank", "startPrank"):
            self.vm_call(CR.S[k], [self.addr_arg(lbl + ".a")])
        elif k in ("prank2", "startPrank2"):
            self.vm_call(CR.S[k], [self.addr_arg(lbl + ".a"), self.addr_arg(lbl + ".o")])
        elif k == "stopPrank":
            self.vm_call(CR.S["stopPrank"], [])
        elif k in ("call", "staticcall"):
            self.call_reporter("CALL" if k == "call" else "STATICCALL")
        elif k == "call_sym":
            # the reporter is called through a symbolic address with two feasible aliases (R and its twin at R ^ 1)
            i = ch.pick(self.n_in, lbl + ".i")
            self.call_reporter("CALL", lambda a_: (a_.push(1), a_.push(32 * i), a_.op("CALLDATALOAD"), a_.op("AND"),
                                                   a_.push(R_ADDR), a_.op("XOR")), 3)
        elif k == "call_nested":
            self.call_reporter("CALL", N_ADDR, 3)
        elif k == "call_pranker":
            self.call_reporter("CALL", H_ADDR, 2)
        elif k == "create":
            init = created_init()
            tag = a.fresh("cinit")
            self.data.append((tag, init))
            a.push(len(init)).ref(tag).push(0x900).op("CODECOPY")
            a.push(len(init)).push(0x900).push(0).op("CREATE")
            # ask the created contract who created it
            a.push(0x40).push(0x700).push(0).push(0).push(0)
            a.op("DUP6").push(0xFFFF).op("CALL").op("POP").op("POP")
            for i in range(2):
                a.push(0x700 + 32 * i).op("MLOAD")
                self.obs()
        elif k == "cheat_between":
            which = ch.choose(["warp", "assume", "deal"], lbl + ".w")
            if which == "warp":
                self.vm_call(CR.S["warp"], [self.word_arg(lbl + ".v")])
            elif which == "assume":
                self.vm_call(CR.S["assume"], [1])
            else:
                self.vm_call(CR.S["deal"], [P1, 5])
        elif k == "deal":
            target = self.addr_arg(lbl + ".a")
            self.vm_call(CR.S["deal"], [target, self.word_arg(lbl + ".v")])
            for t in (target, lambda a_: a_.push(P2), lambda a_: a_.op("ADDRESS")):
                t(a)
                a.op("BALANCE")
                self.obs()
        elif k == "store_load":
            slot = ch.choose([0, 1, 5], lbl + ".s")
            self.vm_call(CR.S["store"], [ST_ADDR, slot, self.word_arg(lbl + ".v")])
            self.vm_call(CR.S["load"], [ST_ADDR, slot], ret=0x20)
            a.push(0x600).op("MLOAD")
            self.obs()
            # read through a real call as well, and another slot / another account
            a.push(slot).push(0x700).op("MSTORE")
            a.push(0x20).push(0x720).push(0x20).push(0x700).push(0).push(ST_ADDR).push(0xFFFF).op("CALL").op("POP")
            a.push(0x720).op("MLOAD")
            self.obs()
            self.vm_call(CR.S["load"], [ST_ADDR, slot + 1], ret=0x20)
            a.push(0x600).op("MLOAD")
            self.obs()
            self.vm_call(CR.S["load"], [R_ADDR, slot], ret=0x20)
            a.push(0x600).op("MLOAD")
            self.obs()
        elif k == "etch":
            code = bytes.fromhex("602a5f5260205ff3")  # returns 42
            n = len(code)
            # onto a fresh address or onto an account that already has code and (possibly) storage
            tgt = ch.choose([P1, ST_ADDR, ST_ADDR], lbl + ".t")
            self.vm_call(CR.S["etch"], [tgt, 0x40, n, int.from_bytes(code.ljust(32, b"\0"), "big")])
            a.push(tgt).op("EXTCODESIZE")
            self.obs()
            a.push(0x20).push(0x700).push(0).push(0).push(0).push(tgt).push(0xFFFF).op("CALL").op("POP")
            a.push(0x700).op("MLOAD")
            self.obs()
            for sl in (0, 1, 5):  # etch replaces the code, not the storage
                self.vm_call(CR.S["load"], [tgt, sl], ret=0x20)
                a.push(0x600).op("MLOAD")
                self.obs()
            a.push(P2).op("EXTCODESIZE")
            self.obs()
        elif k == "block":
            which = ch.choose(["warp", "roll", "fee", "chainId", "coinbase", "difficulty"], lbl + ".w")
            arg = self.addr_arg(lbl + ".a") if which == "coinbase" else self.word_arg(lbl + ".v")
            self.vm_call(CR.S[which], [arg])
            for op in ("TIMESTAMP", "NUMBER", "BASEFEE", "CHAINID", "COINBASE", "DIFFICULTY"):
                a.op(op)
                self.obs()
        elif k == "fresh":
            name = ch.choose(sorted(CR.FRESH), lbl + ".f")
            sig, kind = CR.FRESH[name]
            addr = CR.SVM if name.startswith("create") else CR.VM
            nm = [0x40 if "uint256,string" in sig else 0x20, 1, ord("v") << 248]
            if sig.endswith("(uint256,string)"):
                size = ch.choose([1, 8, 255, 256, 0, 160, 33], lbl + ".bits") if kind in ("uintN", "intN") else ch.choose([0, 1, 32, 33, 65], lbl + ".n")
                if kind in ("uintN", "intN") and size == 0:
                    size = 1
                words = [size] + nm
            elif sig.endswith("(string)"):
                words = nm
            elif sig.endswith("(uint256,uint256)"):
                lo = ch.choose([0, 5, 1 << 255, (1 << 255) - 2, 1], lbl + ".lo")
                words = [lo, lo + ch.choose([0, 1, 100, 4, (1 << 255) - 1], lbl + ".d")]  # incl. ranges straddling 2**255
            elif sig.endswith("(uint256)"):
                words = [ch.choose([1, 8, 255, 256, 32, 33], lbl + ".bits")]
            else:
                words = []
            self.vm_call(CR._sel(sig), words, addr=addr, ret=0xC0)
            a.push(0x600).op("MLOAD")
            self.obs()
            a.push(0x620).op("MLOAD")
            self.obs()
            a.push(0x640).op("MLOAD")
            self.obs()
            a.op("RETURNDATASIZE")
            self.obs()

    def finish(self):
        a = self.a
        # a last plain call shows whether a prank is still pending / active
        self.call_reporter("CALL")
        a.push(0x20).push(0x700).op("RETURN")
        for tag, d in self.data:
            a.mark(tag).raw(d)
        return a.assemble()


def build_world(ch, options):
    n_in = ch.int(1, 3, "w.nin")
    b = Builder(ch, n_in)
    mode = ch.choose(["prank", "prank", "state", "fresh", "mixed"], "w.mode")
    pool = {"prank": ["prank", "prank2", "startPrank", "startPrank2", "stopPrank", "call", "call", "staticcall", "call_nested",
                      "call_pranker", "create", "cheat_between", "call_sym"],
            "state": ["deal", "store_load", "etch", "block", "call"],
            "fresh": ["fresh", "fresh", "call"],
            "mixed": ["prank", "startPrank", "stopPrank", "call", "staticcall", "create", "deal", "store_load", "block", "fresh",
                      "call_nested", "cheat_between"]}[mode]
    n = ch.int(1, 7, "w.nsteps")
    active = None
    branch_at = ch.pick(n + 1, "w.branch") if ch.chance(0.4, "w.dobranch") else -1
    for i in range(n):
        k = ch.choose(pool, f"w.s{i}")
        # generation bound: no prank while another one is pending / active (Foundry and halmos both refuse it)
        if k in ("prank", "prank2", "startPrank", "startPrank2"):
            if active:
                k = "stopPrank" if active == "keep" else "call"
        if k in ("prank", "prank2"):
            active = "once"
        elif k in ("startPrank", "startPrank2"):
            active = "keep"
        elif k == "stopPrank":
            active = None
        elif k in ("call", "staticcall", "call_nested", "call_pranker", "create", "call_sym") and active == "once":
            active = None
        if i == branch_at:
            # a symbolic branch between a prank and its consumption: the prank record must be copied, not shared
            els = b.a.fresh("br")
            b.a.push(1).push(0).op("CALLDATALOAD").op("AND").jumpi(els)
            b.a.push(0x77).push(0xF).op("SSTORE")
            b.a.label(els)
        b.step(k, f"w.s{i}")
    main = b.finish()
    accounts = {gen.TARGET: main, R_ADDR: reporter_runtime(), N_ADDR: nested_runtime(), H_ADDR: pranking_helper_runtime(),
                ST_ADDR: stateful_runtime(), R_ADDR ^ 1: reporter_runtime()}
    w = E.EWorld(accounts=accounts, target=gen.TARGET, calldata=[("sym", f"in_cd{i}", 32) for i in range(n_in)],
                 caller=gen.EOA1, origin=gen.EOA1, value=0, balances={}, options=options)
    w.meta = dict(mode=mode, steps=b.steps)
    return w


class CheatFactory:
    """per (path, input) instance of the reference model; fresh-symbol outputs are read off halmos' own trace"""

    @staticmethod
    def for_pair(m, r):
        if m is None:
            return CR.Model(None)
        from halmos.sevm import CallContext

        outs = []

        def walk(ctx):
            for el in ctx.trace:
                if isinstance(el, CallContext):
                    tgt = E.ev_int(m, el.message.target)
                    data = E.ev_bytes(m, el.message.data) or b""
                    if tgt in (CR.VM, CR.SVM) and bytes(data[:4]) in CR.FRESH_BY_SEL:
                        outs.append(E.ev_bytes(m, el.output.data) or b"")
                    walk(el)

        walk(r.context)
        return CR.Model(outs)


def independence_hook(r, pv, probe, violations):
    """two values returned by fresh-symbol cheatcodes on one path must be able to differ and to agree, bit for bit"""
    import z3

    from halmos.sevm import CallContext

    bits = []

    def walk(ctx):
        for el in ctx.trace:
            if isinstance(el, CallContext):
                tgt = E.to_z3(el.message.target)
                data = E.to_z3(el.message.data)
                sel = None
                if isinstance(data, bytes):
                    sel = data[:4]
                elif data is not None and not isinstance(data, int) and z3.is_bv(data) and data.size() >= 32:
                    top = z3.simplify(z3.Extract(data.size() - 1, data.size() - 32, data))
                    sel = top.as_long().to_bytes(4, "big") if z3.is_bv_value(top) else None
                if sel in CR.FRESH_BY_SEL and z3.is_bv_value(z3.simplify(tgt)) if tgt is not None and not isinstance(tgt, int) else sel in CR.FRESH_BY_SEL:
                    name, sig, kind = CR.FRESH_BY_SEL[sel]
                    out = E.to_z3(el.output.data)
                    if out is None or isinstance(out, (int, bytes)) or not z3.is_bv(out) or kind == "range":
                        pass
                    else:
                        n = out.size()
                        if kind == "bytes4":
                            pos = n - 1
                        elif kind == "bytes":
                            pos = n - 1 - 8 * 64 if n > 8 * 64 else None
                        else:
                            pos = n - 256 if n >= 256 else 0  # lowest bit of the first word
                        if pos is not None and pos >= 0:
                            b = z3.simplify(z3.Extract(pos, pos, out))
                            if not z3.is_bv_value(b):
                                bits.append((name, b))
                walk(el)

    walk(r.context)
    if len(bits) < 2:
        return
    probe("fresh_pairs_checked")
    (n1, b1), (n2, b2) = bits[0], bits[-1]
    for x, y in ((0, 1), (1, 0), (1, 1), (0, 0)):
        s = z3.Solver()
        s.set(rlimit=400000)
        for c in pv.conditions:
            s.add(c)
        s.add(b1 == x, b2 == y)
        res = s.check()
        if res == z3.unsat:
            violations.append(dict(oracle="ENGINE:fresh-symbol", disc="not-independent",
                                   detail=f"path {r.index}: the values returned by {n1} and a later {n2} cannot take the bit pattern ({x},{y}): "
                                          f"they are not independent", kind="fresh"))
            return


class C14Check(C01Check):
    property_id = "C14"
    name = "c14-engine-sim"
    oracle_prefixes = ("ENGINE:endstate-mismatch", "ENGINE:fresh-symbol", "ENGINE:assume-semantics")
    rename = {"ENGINE:endstate-mismatch": "C14:observation", "ENGINE:fresh-symbol": "C14:fresh-symbol",
              "ENGINE:assume-semantics": "C14:assume"}
    rule = ("each run = one main contract executing a seeded history of 1-7 steps from {prank, prank(a,o), startPrank, "
            "startPrank(a,o), stopPrank, CALL / STATICCALL of a reporter, call of a helper that calls the reporter, call of a helper "
            "that pranks by itself, CREATE of a reporter whose constructor records msg.sender/tx.origin, a cheatcode call in between, "
            "deal / store+load / etch / warp / roll / fee / chainId / coinbase / difficulty followed by BALANCE / SLOAD (via vm.load and "
            "via a real call) / EXTCODESIZE / block reads for the targeted and for other accounts, svm.create* and vm.random* for widths "
            "1..256 and byte sizes 0..65}, with concrete and symbolic arguments, an optional symbolic branch between a prank and its "
            "consumption; every observation goes to a storage slot. SEVM.run under unknown / uid (incl. all-equal suffixes) / gc faults. "
            "Oracle: lock-step comparison of the frame tree (callers, origins, storage writes in order, balances, code) with the "
            "reference EVM driven by the reference cheat model; values returned by fresh-symbol cheatcodes are taken from halmos' trace "
            "under the model and validated for width / encoding / range. distinct = distinct (world hash, path list, query count); "
            "non-trivial = >= 1 (path, input) pair judged")
    kwargs = {"n_sigmas": 5, "check_pruned": False, "world_fn": build_world, "cheat": CheatFactory,
              "cheat_addrs": (CR.VM, CR.SVM), "unknown_rates": (0.0, 0.0, 0.3, 1.0), "path_hook": independence_hook}

    def refine(self, v):
        if v["oracle"] == "ENGINE:endstate-mismatch" and v.get("quirk"):
            return None
        return v

    def run_one(self, ch, keep_log=False, **kw):
        res = super().run_one(ch, keep_log=keep_log, **kw)
        res["nontrivial"] = res["probes"].get("pairs_judged", 0) >= 1
        # the constraints these cheatcodes add (range / width of a fresh symbol, `deal`, ...) go onto the path without a feasibility
        # check; a reported path with unsatisfiable constraints, in a run in which no branching query was answered `unknown`, means
        # such a constraint contradicts the path: everything after the cheatcode would be verified vacuously
        if res["probes"].get("paths_vacuous", 0) and not res["faults"].get("branch_unknown", 0) and not res["violations"]:
            res["violations"] = [dict(oracle="C14:fresh-symbol", disc="vacuous-path",
                                      detail=f"{res['probes']['paths_vacuous']} reported path(s) have unsatisfiable constraints although every "
                                             f"branching query was decided; steps {res['descriptor'].get('steps') if isinstance(res.get('descriptor'), dict) else ''}")]
        return res


def factory():
    return C14Check()


if __name__ == "__main__":
    from hsim.runner import main_for

    sys.exit(main_for(factory))
