"""C16 - the unsat-core cache never changes a verdict (run-sim, seam monitor + twin run).

Workload: a test contract with 1-3 check functions, each a decision tree (depth 2-4) over three arguments whose
node predicates come from a small pool containing mutually contradictory pairs that only a solver sees, so
that - with some branching queries answered `unknown` - many assertion-failing paths share prefixes and many
of them are unsatisfiable with unsat cores of different shapes.  Garbage collections are injected
between paths and between tests (condition ids are z3 AST ids, which are recycled after release).
"""

from __future__ import annotations

import hashlib
import os
import sys

sys.path.insert(0, os.path.dirname(os.path.dirname(os.path.abspath(__file__))))

from evm import artifact as A  # noqa: E402
from hsim import runsim as R  # noqa: E402

VERDICT_OF_EXIT = {0: "PASS", 1: "FAIL", 2: "TIMEOUT", 3: "ERROR", 4: "ERROR", 5: "ERROR"}

# predicates over args (x at 4, y at 0x24, z at 0x44): (name, emitter leaving a boolean on the stack)
def _arg(a, i):
    a.push(4 + 32 * i).op("CALLDATALOAD")


def _p_and_eq(i, mask, val):
    def e(a):
        a.push(mask); _arg(a, i); a.op("AND"); a.push(val); a.op("EQ")
    return (f"a{i}&{mask:#x}=={val:#x}", e)


def _p_lt(i, c):
    def e(a):
        a.push(c); _arg(a, i); a.op("LT")
    return (f"a{i}<{c:#x}", e)


def _p_gt(i, c):
    def e(a):
        a.push(c); _arg(a, i); a.op("GT")
    return (f"a{i}>{c:#x}", e)


def _p_gt_selfbalance(i):
    def e(a):
        a.op("SELFBALANCE"); _arg(a, i); a.op("GT")
    return (f"a{i}>selfbalance", e)


def _p_sum(i, j, c):
    def e(a):
        _arg(a, j); _arg(a, i); a.op("ADD"); a.push(c); a.op("EQ")
    return (f"a{i}+a{j}=={c:#x}", e)


def _p_mulsq(i, c):
    def e(a):
        _arg(a, i); a.op("DUP1").op("MUL"); a.push(c); a.op("EQ")
    return (f"a{i}*a{i}=={c:#x}", e)


POOL = [
    _p_and_eq(1, 0xFF, 3), _p_and_eq(1, 0x0F, 5), _p_and_eq(1, 0x0F, 3), _p_and_eq(0, 1, 1), _p_and_eq(0, 3, 2),
    _p_lt(2, 10), _p_gt(2, 20), _p_gt(2, 5), _p_lt(1, 0x100), _p_sum(0, 2, 7), _p_sum(1, 2, 0x103), _p_mulsq(2, 9), _p_mulsq(2, 3),
    _p_and_eq(2, 0xF0, 0x30), _p_lt(0, 4),
]


class TreeCase:
    def __init__(self, ch):
        self.ch = ch
        self.pool = list(POOL)
        self.nfun = ch.int(1, 2, "t.nfun")
        self.funs = []
        for f in range(self.nfun):
            if ch.chance(0.1, f"t.{f}.implicit"):
                self.funs.append((f"check_t{f}(uint256,uint256,uint256)", self._implicit_tree(f"t.{f}.i")))
                continue
            if ch.chance(0.2, f"t.{f}.recycle"):
                self.funs.append((f"check_t{f}(uint256,uint256,uint256)", self._recycle_tree(f"t.{f}.r")))
                continue
            if ch.chance(0.25, f"t.{f}.chain"):
                # exclusion chain: an unsatisfiable leaf whose unsat core needs 20-45 conditions (solvers wrap long cores over lines)
                self.funs.append((f"check_t{f}(uint256,uint256,uint256)",
                                  ("chain", ch.choose([22, 45, 60], f"t.{f}.n"), ch.pick(3, f"t.{f}.arg"), ch.chance(0.5, f"t.{f}.sq"),
                                   ch.chance(0.5, f"t.{f}.order"), ch.choose([None, "fall", "jump"], f"t.{f}.early"))))
                continue
            depth = ch.int(3, 4, f"t.{f}.depth")
            self.funs.append((f"check_t{f}(uint256,uint256,uint256)", self._node(depth, f"t.{f}")))

    def _pred(self, pr):
        self.pool.append(pr)
        return len(self.pool) - 1

    def _implicit_tree(self, lbl):
        """an unsatisfiable leaf whose contradiction involves a constraint halmos adds by itself, without a branch (the sender's
        balance covers a value transfer), next to a satisfiable leaf that shares every branching condition of it"""
        ch = self.ch
        i = ch.pick(3, lbl + ".arg")
        over = self._pred(_p_gt_selfbalance(i))
        sel = self._pred(_p_and_eq(ch.choose([j for j in range(3) if j != i], lbl + ".sel.arg"), (1 << 256) - 1, ch.int(0, 5, lbl + ".sel.c")))
        a_side = ("xfer", i, ("leaf", "panic"))
        c_side = ("leaf", "panic")
        inner = ("node", sel, a_side, c_side) if ch.chance(0.5, lbl + ".side") else ("node", sel, c_side, a_side)
        return ("node", over, inner, ("leaf", "success"))

    def _recycle_tree(self, lbl):
        """an unsatisfiable leaf whose core contains a constraint that only its own state keeps alive (vm.assume on a taken
        branch), explored and dropped before sibling paths create conditions that did not exist before (term ids may be
        re-used) and reach a satisfiable leaf sharing the rest of the core"""
        ch = self.ch
        assumed, contra = ch.choose([(_p_and_eq(0, 1, 0), _p_and_eq(0, 3, 3)), (_p_lt(2, 10), _p_gt(2, 20)),
                                     (_p_and_eq(1, 0xFF, 3), _p_and_eq(1, 0x0F, 5)), (_p_gt(2, 20), _p_lt(2, 10))], lbl + ".pair")
        pa, pc = self._pred(assumed), self._pred(contra)
        leafy = ("node", pc, ("leaf", "panic"), ("leaf", "success"))
        a_side = ("assume", pa, leafy)
        c_side = leafy
        for k in range(ch.int(1, 3, lbl + ".nfresh")):
            i = ch.pick(3, f"{lbl}.f{k}.arg")
            fresh = self._pred(_p_and_eq(i, (1 << 256) - 1, ch.int(1, 40, f"{lbl}.f{k}.c")))
            c_side = ("node", fresh, c_side, ("leaf", "success")) if ch.chance(0.5, f"{lbl}.f{k}.side") else \
                ("node", fresh, ("leaf", "success"), c_side)
        sel = self._pred(_p_and_eq(ch.pick(3, lbl + ".sel.arg"), (1 << 256) - 1, ch.int(1, 9, lbl + ".sel.c")))
        inner = ("node", sel, a_side, c_side) if ch.chance(0.5, lbl + ".sel.side") else ("node", sel, c_side, a_side)
        if ch.chance(0.5, lbl + ".gate"):
            gate = self._pred(_p_and_eq(ch.pick(3, lbl + ".gate.arg"), (1 << 256) - 1, 1))
            return ("node", gate, inner, ("leaf", "success")) if ch.chance(0.5, lbl + ".gate.side") else ("node", gate, ("leaf", "success"), inner)
        return inner

    def _node(self, depth, lbl):
        ch = self.ch
        if depth == 0 or ch.chance(0.15, lbl + ".early"):
            return ("leaf", ch.choose(["panic", "panic", "success", "assert", "revert"], lbl + ".leaf"))
        p = ch.pick(len(POOL), lbl + ".p")
        if ch.chance(0.35, lbl + ".assume"):
            # vm.assume(pred): a constraint that enters the path without a branching query
            return ("assume", p, self._node(depth - 1, lbl + "A"))
        return ("node", p, self._node(depth - 1, lbl + "T"), self._node(depth - 1, lbl + "F"))

    def emit_chain(self, a, node):
        _, n, i, sq, feasible_first, early = node
        out = a.fresh("out")
        if early:
            # the condition that tells the satisfiable path from the unsatisfiable one comes *first* (a no-op diamond on x & 1 == 1);
            # everything after it - the whole chain and the final test - is shared by both
            j = a.fresh("dia")
            # (x & 1 == 1, not x == 1: halmos would substitute the constant for x and fold the whole chain away on that side)
            a.push(1); _arg(a, i); a.op("AND"); a.push(1).op("EQ")
            if early == "jump":
                a.op("ISZERO")
            a.jumpi(j)
            a.push(0).op("POP")
            a.label(j)
        for k in range(2, n + 2):
            _arg(a, i); a.push(k).op("EQ").jumpi(out)
        _arg(a, i); a.push(n + 1).op("LT").jumpi(out)  # n+1 < x
        # here x is 0 or 1

        def val():
            _arg(a, i)
            if sq:
                a.op("DUP1").op("MUL")

        def infeasible():
            nxt = a.fresh("nxt")
            val(); a.push(1).op("LT").op("ISZERO").jumpi(nxt)  # 1 < v: needs every exclusion above
            A.emit_panic(a, 1)
            a.label(nxt)

        def feasible():
            nxt = a.fresh("nxt")
            val(); a.push(1).op("EQ").op("ISZERO").jumpi(nxt)
            A.emit_panic(a, 1)
            a.label(nxt)

        if early:
            nxt = a.fresh("nxt")
            val(); a.push(0).op("LT").op("ISZERO").jumpi(nxt)  # 0 < v: with x != 1 this needs every exclusion to be refuted
            A.emit_panic(a, 1)
            a.label(nxt)
        else:
            for part in ((feasible, infeasible) if feasible_first else (infeasible, feasible)):
                part()
        a.label(out)
        a.op("STOP")

    def emit(self, a, node):
        if node[0] == "chain":
            return self.emit_chain(a, node)
        if node[0] == "leaf":
            k = node[1]
            if k == "panic":
                A.emit_panic(a, 1)
            elif k == "assert":
                A.emit_vm_call(a, "assertTrue(bool)", [0])
                a.op("POP").op("STOP")
            elif k == "revert":
                a.push(0).push(0).op("REVERT")
            else:
                a.op("STOP")
            return
        if node[0] == "xfer":
            # ok = call{value: a_i}(0x1234); if (!ok) return;   (the transfer constrains the balance without a branch)
            okl = a.fresh("xok")
            a.push(0).push(0).push(0).push(0); _arg(a, node[1]); a.push(0x1234).push(0xFFFF).op("CALL")
            a.jumpi(okl)
            a.op("STOP")
            a.label(okl)
            self.emit(a, node[2])
            return
        if node[0] == "assume":
            A.emit_vm_call(a, "assume(bool)", [self.pool[node[1]][1]])
            a.op("POP")
            self.emit(a, node[2])
            return
        _, p, t, f = node
        els = a.fresh("else")
        self.pool[p][1](a)
        a.op("ISZERO").jumpi(els)
        self.emit(a, t)
        a.label(els)
        self.emit(a, f)

    def build(self):
        fns = {}
        abis = []
        for sig, tree in self.funs:
            fns[sig] = (lambda a, tree=tree: self.emit(a, tree))
            abis.append(A.abi_item(sig, ["x", "y", "z"]))
        rt = A.build_runtime(fns)
        cj = A.contract_json("T", "test/T.sol", rt, abis)
        return rt, cj, A.build_out_map([("T.sol", "T", cj)])

    def describe(self):
        def d(n):
            if n[0] == "chain":
                return {"chain": list(n[1:])}
            if n[0] == "xfer":
                return {f"transfer a{n[1]}": d(n[2])}
            if n[0] == "assume":
                return {"assume " + self.pool[n[1]][0]: d(n[2])}
            return n[1] if n[0] == "leaf" else {self.pool[n[1]][0]: [d(n[2]), d(n[3])]}
        return {sig: d(tree) for sig, tree in self.funs}


class C16Check:
    property_id = "C16"
    name = "c16-run-sim"
    level = "exploration"
    rule = ("(20 % of the functions are exclusion chains - an unsatisfiable leaf needing 22-45 conditions, so that the solver wraps the unsat core over several lines - and 20 % are id-recycling templates: vm.assume on a taken branch, unsatisfiable leaf, then sibling paths creating conditions that did not exist before) each run = one generated contract with 1-2 check functions, each a decision tree of depth 3-4 over three arguments with "
            "predicates drawn from a pool containing solver-only contradictions (so unsatisfiable assertion-failing paths with unsat cores "
            "of many shapes share prefixes with satisfiable ones), run by run_contract under the simulator with --cache-solver, branching "
            "`unknown` for every branching query (so infeasible paths survive identically in both twins), 1-4 solver threads, seeded solver latencies (they decide when a core becomes visible), gc.collect() "
            "injected between paths and tests, both solvers. Oracles: (i) every query answered from the cache is re-solved by the "
            "truthful solver - `sat` is a violation; (ii) twin run of the same contract with the cache off under its own schedule: "
            "verdict and number of counterexamples per test must be equal; distinct = distinct (contract hash, event-log digest); "
            "non-trivial = >=1 unsat core was stored and >=2 queries reached the solver")
    assumptions = ["truthful replies (and the re-solving of cache hits) come from the real yices / z3 binaries",
                   "gc is injected at path boundaries of the main thread and between tests, not inside z3"]
    components = {
        "real": ["halmos.solve (check_unsat_cores, parse_unsat_core, dump with named assertions)", "halmos.sevm.Path.to_smt2",
                 "halmos.__main__ run_test / callbacks", "yices-smt2 / z3 binaries"],
        "stub": ["thread scheduling", "ThreadPoolExecutor (model)", "Popen / psutil (simulated)", "clock", "uuid4", "forge"],
    }
    tiers = {
        "quick": {"budget_s": 60, "run_timeout": 120, "shrink_budget": 60},
        "thorough": {"budget_s": 600, "run_timeout": 120, "shrink_budget": 240},
    }

    def prepare(self):
        import halmos.__main__  # noqa: F401

    def run_one(self, ch, keep_log=False, **_):
        import gc

        import halmos.__main__ as hm

        solver = ch.choose(["yices", "yices", "yices", "yices", "yices", "z3"], "sw.solver")
        threads = ch.choose([1, 1, 2, 4], "sw.threads")
        # every branching query is answered `unknown` (a sampled rate would give the two twins different explorations)
        unknown_rate = 1.0
        gc_rate = ch.choose([0.0, 1.0, 1.0], "sw.gc")
        core_fault = ch.choose([None, None, "core_missing", "core_garbled", "core_empty", "core_truncated"], "sw.corefault")
        case = TreeCase(ch)
        rt, cj, bom = case.build()
        sigs = [s for s, _ in case.funs]
        outs = []
        for cache in (True, False):
            args = R.make_args(solver_threads=threads, cache_solver=cache, panic_error_codes={1})
            gcs = {"n": 0}

            def plan(info):
                if core_fault == "core_truncated" and info["truth"] == "unsat" and not info["refined"] and (info["seq"] % 2 == 0):
                    t = R.truncated_core(info.get("truth_stdout") or "")
                    return ("stdout:" + t) if t else None
                if core_fault and info["truth"] == "unsat" and not info["refined"] and (info["seq"] % 2 == 0):
                    return {"core_missing": "stdout:unsat\n", "core_garbled": "stdout:unsat\n(<12 <oops\n",
                            "core_empty": "stdout:unsat\n()\n"}[core_fault]
                return None

            def main(args=args, gcs=gcs):
                orig_rm = hm.run_message
                orig_rt = hm.run_test

                def tee(ctx, sevm, message, dyn_params):
                    for ex in orig_rm(ctx, sevm, message, dyn_params):
                        yield ex
                        del ex
                        if gc_rate and ch.chance(gc_rate, "gc_now"):
                            gcs["n"] += 1
                            gc.collect()

                def run_test(ctx):
                    if gc_rate:
                        gcs["n"] += 1
                        gc.collect()
                    return orig_rt(ctx)

                hm.run_message = tee
                hm.run_test = run_test
                try:
                    ctx = R.make_contract_ctx(args, "T", "test/T.sol", cj, sigs, bom)
                    return hm.run_contract(ctx)
                finally:
                    hm.run_message = orig_rm
                    hm.run_test = orig_rt

            out = R.run_under_sim(ch, main, solver=solver, plan=plan, keep_log=keep_log, unknown_rate=unknown_rate,
                                  max_steps=80000)
            out.gcs = gcs["n"]
            outs.append(out)
        on, off = outs
        vio = []
        incon = None
        if any(o.stub.wall_timeouts or any(h["wall_timeout"] for h in o.cache.hits) for o in outs):
            incon = "truthful-solver-wall-timeout"
        elif any(o.outcome != "done" for o in outs):
            incon = "step-cap" if any(o.outcome == "step-cap" for o in outs) else None
            if any(o.outcome == "deadlock" for o in outs):
                vio.append(dict(oracle="C16:hang", disc="deadlock", detail=f"{[o.sim.deadlock_info for o in outs]}"))
        else:
            for h in on.cache.hits:
                if h["truth"] == "sat":
                    vio.append(dict(oracle="C16:false-cache-hit", disc="empty-core" if h["empty_core"] else "sat-query-answered-unsat",
                                    detail=f"a query with {h['n_assertions']} assertions was answered unsat from {h['n_cores']} stored cores, "
                                           f"but the solver finds it satisfiable; contract {case.describe()}"))
                    break
            ron = {r.name: (VERDICT_OF_EXIT.get(r.exitcode), r.num_models) for r in (on.results or [])}
            roff = {r.name: (VERDICT_OF_EXIT.get(r.exitcode), r.num_models) for r in (off.results or [])}
            if ron != roff and not vio:
                diff = {k: (ron.get(k), roff.get(k)) for k in set(ron) | set(roff) if ron.get(k) != roff.get(k)}
                vio.append(dict(oracle="C16:cache-changes-verdict", disc="verdict" if any(a and b and a[0] != b[0] for a, b in diff.values()) else "counterexamples",
                                detail=f"(verdict, #counterexamples) with cache vs without: {diff}; cache hits {len(on.cache.hits)}; "
                                       f"contract {case.describe()}"))
        n_unsat_on = sum(1 for h in on.stub.history if h["truth"] == "unsat")
        probes = {"cache_hits": len(on.cache.hits), "cache_checks": on.cache.calls, "queries_cache_on": len(on.stub.history),
                  "queries_cache_off": len(off.stub.history), "unsat_replies": n_unsat_on, "gc_collections": on.gcs + off.gcs,
                  "tests": len(sigs)}
        faults = {}
        for o in outs:
            for k, n in list(o.sim.fault_counts.items()) + list(o.eseam.faults.items()):
                faults[k] = faults.get(k, 0) + n
        if on.gcs + off.gcs:
            faults["gc_now"] = on.gcs + off.gcs
        res = dict(violations=vio, inconclusive=incon, faults=faults, probes=probes,
                   digest=on.sim.digest() + off.sim.digest(), shape=hashlib.sha1(rt).hexdigest()[:12],
                   nontrivial=n_unsat_on >= 1 and len(on.stub.history) >= 2,
                   sim_seconds=on.sim.now + off.sim.now, steps=on.sim.steps + off.sim.steps,
                   descriptor=dict(contract=case.describe(), solver=solver, threads=threads, unknown_rate=unknown_rate, gc_rate=gc_rate,
                                   core_fault=core_fault, probes=probes,
                                   verdicts_on=[(r.name, r.exitcode, r.num_models) for r in (on.results or [])],
                                   verdicts_off=[(r.name, r.exitcode, r.num_models) for r in (off.results or [])]))
        if keep_log:
            res["log"] = [("stdout_on", on.stdout[-800:]), ("stdout_off", off.stdout[-800:]), ("code", rt.hex())]
        return res


def factory():
    return C16Check()


if __name__ == "__main__":
    from hsim.runner import main_for

    sys.exit(main_for(factory))
