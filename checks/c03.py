"""C03 - PASS means no admissible input violates the test; C04 - valid counterexamples replay (run-sim, end to end).

Each case is a generated test contract (optional setUp writing state, one check function with static and
optionally one `bytes` parameter) whose body is a chain of guards ending in a FAIL leaf, with every other
path ending in success / revert / a non-failure halt.  Ground truth is known by construction: the
generator first plants a witness input and derives the guard constants from it (reachable), or adds
a contradiction (unreachable); the witness is confirmed on the reference EVM before the case is used.
"""

from __future__ import annotations

import os
import sys

sys.path.insert(0, os.path.dirname(os.path.dirname(os.path.abspath(__file__))))

from evm import artifact as A  # noqa: E402
from evm.keccak import keccak256  # noqa: E402
from evm.refevm import RefEVM, World  # noqa: E402
from hsim import runsim as R  # noqa: E402

M256 = (1 << 256) - 1
TEST_ADDR = 0x7FA9385BE102AC3EAC297483DD6233D62B3E1496
CALLER = 0x1804C8AB1F12E6BBF3894D4083F33E07309D1F38
PANIC_SET = {0x01, 0x11, 0x12}
BYTES_LENGTHS = [0, 32, 65]
VERDICT_OF_EXIT = {0: "PASS", 1: "FAIL", 2: "TIMEOUT", 3: "ERROR", 4: "ERROR", 5: "ERROR"}


def s256(x):
    return x - (1 << 256) if x >> 255 else x


class Case:
    """one generated test function"""

    def __init__(self, ch, allow_bytes=True, name="check_g", setup=None, light=False, store_forms=False, allow_unnamed=False):
        self.ch = ch
        self.light = light
        # (C20 only) the test first writes a mapping slot m[K] (base slot 1, K outside halmos' precomputed table) either
        # through the literal hash constant or by hashing at run time, and a guard reads it back through either form
        # optional vm.warp / vm.roll at the start of the test (on the trunk path) and guards on TIMESTAMP / NUMBER
        self.block_cheat = ch.choose([None, None, None, ("warp", 1000), ("roll", 77), ("warp", 1)], "c.blockcheat")
        # optional no-op diamond at the start: both siblings then run the whole guard chain
        self.diamond = ch.chance(0.25, "c.diamond")
        self.store_form = None
        if store_forms and ch.chance(0.6, "c.sf"):
            self.store_form = (ch.choose(["lit", "hash"], "c.sf.w"), ch.choose(["hash", "lit"], "c.sf.r"), ch.choose([0xDEAD, 0xBEEF], "c.sf.k"))
        self.fname = name
        self.nstatic = ch.int(1, 3, "c.nstatic")
        self.has_bytes = allow_bytes and ch.chance(0.3, "c.bytes")
        self.types = ["uint256"] * self.nstatic + (["bytes"] if self.has_bytes else [])
        self.names = [f"a{i}" for i in range(self.nstatic)] + (["bs"] if self.has_bytes else [])
        # parameters without names are legal Solidity: halmos then has nothing but its fresh-symbol suffix to tell them apart
        self.unnamed = bool(allow_unnamed and self.nstatic >= 2 and ch.chance(0.15, "c.unnamed"))
        if self.unnamed:
            self.names = [""] * self.nstatic + (["bs"] if self.has_bytes else [])
        self.sig = name + "(" + ",".join(self.types) + ")"
        self.setup_value = ch.choose([None, 0, 7, 1 << 200], "c.setup")
        # symbolic setUp: slot 0 holds svm.createUint256("s") constrained to s > 5, and a second symbol t < 100 is
        # created and constrained but never stored (a setUp constraint unrelated to the state)
        self.setup_sym = self.setup_value not in (None, 0) and ch.chance(0.4, "c.setupsym")
        self.wt = ch.choose([0, 7, 99], "c.wt")
        if setup is not None:  # several tests of one contract share the setUp
            self.setup_value, self.setup_sym, self.wt = setup
        self.reachable = not ch.chance(0.4, "c.unreach")
        # witness
        self.w = [self._wval(f"c.w{i}") for i in range(self.nstatic)]
        self.wlen = ch.choose(BYTES_LENGTHS, "c.wlen") if self.has_bytes else 0
        self.wbytes = bytes((ch.pick(256, "c.wb") for _ in range(min(self.wlen, 4)))) + bytes(max(self.wlen - 4, 0))
        self.guards = []
        self.uses_hash = False
        self.uses_abstraction = False
        self.uses_exp = False
        n = ch.int(1, 4, "c.nguards")
        for i in range(n):
            self.guards.append(self._guard(f"c.g{i}"))
        if not self.reachable:
            self.guards.insert(ch.pick(len(self.guards) + 1, "c.cpos"), self._contradiction("c.contra"))
        self.leaf = ch.choose(["panic", "panic", "asserttrue", "asserteq", "nested_panic"], "c.leaf")
        self.panic_code = ch.choose(sorted(PANIC_SET), "c.pcode")
        self.other = ch.choose(["success", "success", "revert", "invalid", "panic_unlisted"], "c.other")
        self.tail = ch.choose(["success", "success", "panic_unlisted", "revert"], "c.tail")

    def _wval(self, lbl):
        ch = self.ch
        k = ch.pick(5, lbl + ".k")
        if k == 0:
            return ch.pick(8, lbl)
        if k == 1:
            return ch.choose([0xFF, 0x100, 1 << 128, (1 << 255), M256, M256 - 1, (1 << 255) - 1], lbl)
        if k == 2:
            return ch.pick(1 << 16, lbl)
        return ch.bits(256, lbl)

    # ---- guards: (kind, params) all true under the witness
    def _guard(self, lbl):
        ch = self.ch
        w = self.w
        i = ch.pick(self.nstatic, lbl + ".i")
        j = ch.pick(self.nstatic, lbl + ".j")
        kinds = ["eq", "lt", "gt", "addeq", "and", "muleq", "diveq", "modeq", "xor", "slt"] * 3
        # two-operand division / modular forms are costly for the real solver (wall-clock limited): kept rarer
        if not self.light:
            kinds += ["mod2", "smod2", "sdiv2", "addmod3", "mulmod3", "exp2"]
        if self.nstatic >= 2:
            kinds += ["lt2"] if self.light else ["mul2", "div2", "lt2"]
        kinds += ["hasheq", "blockval"]
        if self.setup_value is not None:
            kinds += ["state", "stateconst"]
        if self.has_bytes:
            kinds += ["len", "bword", "bword"]
        k = ch.choose(kinds, lbl + ".k")
        if k == "eq":
            return ("eq", i, w[i])
        if k == "lt":
            if w[i] == M256:
                return ("eq", i, w[i])
            return ("lt", i, min(M256, w[i] + 1 + ch.pick(3, lbl + ".d")))
        if k == "gt":
            if w[i] == 0:
                return ("eq", i, 0)
            return ("gt", i, max(0, w[i] - 1 - ch.pick(3, lbl + ".d")))
        if k == "slt":
            c = ch.choose([0, 1, (1 << 255), 5], lbl + ".c")
            return ("slt", i, c) if s256(w[i]) < s256(c) else ("sge", i, c)
        if k == "addeq":
            c = ch.bits(256, lbl + ".c")
            return ("addeq", i, c, (w[i] + c) & M256)
        if k == "and":
            m = ch.choose([0xFF, 0xFFFF, 1, 0xF0, 1 << 255], lbl + ".m")
            return ("and", i, m, w[i] & m)
        if k == "xor":
            c = ch.bits(256, lbl + ".c")
            return ("xor", i, c, w[i] ^ c)
        if k == "muleq":
            c = ch.choose([3, 2, 0x10001, 7], lbl + ".c")
            self.uses_abstraction = True
            return ("muleq", i, c, (w[i] * c) & M256)
        if k == "diveq":
            c = ch.choose([3, 2, 1000, 7], lbl + ".c")
            self.uses_abstraction = True
            return ("diveq", i, c, w[i] // c)
        if k == "modeq":
            c = ch.choose([3, 10, 1000, 7], lbl + ".c")
            self.uses_abstraction = True
            return ("modeq", i, c, w[i] % c)
        if k == "mul2":
            self.uses_abstraction = True
            return ("mul2", i, j, (w[i] * w[j]) & M256)
        if k == "div2":
            self.uses_abstraction = True
            return ("div2", i, j, 0 if w[j] == 0 else w[i] // w[j])
        if k in ("mod2", "smod2", "sdiv2"):
            self.uses_abstraction = True
            x, y = (w[i] + 7) & M256, w[j]
            if k == "mod2":
                r = 0 if y == 0 else x % y
            else:
                sx, sy = s256(x), s256(y)
                if sy == 0:
                    r = 0
                elif k == "smod2":
                    r = (abs(sx) % abs(sy)) * (-1 if sx < 0 else 1) & M256
                else:
                    q = abs(sx) // abs(sy)
                    r = (q if (sx < 0) == (sy < 0) else -q) & M256
            return (k, i, j, r)
        if k in ("addmod3", "mulmod3"):
            self.uses_abstraction = True
            x, y, m = w[i], (w[j] + 3) & M256, w[(i + 1) % self.nstatic]
            r = 0 if m == 0 else ((x + y) % m if k == "addmod3" else (x * y) % m)
            return (k, i, j, (i + 1) % self.nstatic, r)
        if k == "exp2":
            self.uses_abstraction = True
            self.uses_exp = True
            e = w[j] & 0xFF
            return ("exp2", i, j, pow(w[i], e, 1 << 256))
        if k == "lt2":
            return ("lt2", i, j) if w[i] < w[j] else ("ge2", i, j)
        if k == "hasheq":
            self.uses_hash = True
            return ("hasheq", i, int.from_bytes(keccak256(w[i].to_bytes(32, "big")), "big"))
        if k == "blockval":
            # the block field holds what this test set, or the setUp-time default (timestamp 1, number 1)
            which = ch.choose(["TIMESTAMP", "NUMBER"], lbl + ".bf")
            val = 1
            if self.block_cheat and ((self.block_cheat[0] == "warp") == (which == "TIMESTAMP")):
                val = self.block_cheat[1]
            return ("blockval", which, val)
        if k == "state":
            return ("state_eq", i) if w[i] == self.setup_value else ("state_ne", i)
        if k == "stateconst":
            return ("stateconst", self.setup_value)  # require(stored value == constant)
        if k == "len":
            return ("len", self.wlen)
        if k == "bword":
            if self.wlen == 0:
                return ("len", 0)
            word = (self.wbytes + bytes(32))[:32]
            return ("bword", int.from_bytes(word, "big"))
        raise AssertionError(k)

    def _contradiction(self, lbl):
        ch = self.ch
        i = ch.pick(self.nstatic, lbl + ".i")
        base = ["eq2", "parity", "range", "mulparity", "divzero", "modzero", "smodzero", "sdivzero", "addmodzero", "mulmodzero"]
        base += ["hashinj"]
        if self.light:
            base = ["eq2", "parity", "range", "mulparity", "hashinj"]
        k = ch.choose(base + (["lenbad"] if self.has_bytes else []), lbl + ".k")
        if k in ("mulparity", "divzero", "modzero", "smodzero", "sdivzero", "addmodzero", "mulmodzero"):
            self.uses_abstraction = True
        j = ch.pick(self.nstatic, lbl + ".j")
        return ("contra_" + k, i, self.w[i], j)

    # ---- code
    def _arg(self, a, i):
        a.push(4 + 32 * i).op("CALLDATALOAD")

    def _bytes_base(self):
        return 4 + 32 * (self.nstatic + 1)  # position of the length word (single dynamic param, canonical encoding)

    def emit_guard(self, a, g, fail_lbl):
        """falls through when the guard holds, jumps to fail_lbl otherwise"""
        k = g[0]

        def cmp_jump(op, invert=False):
            a.op(op)
            if not invert:
                a.op("ISZERO")
            a.jumpi(fail_lbl)

        if k == "eq":
            self._arg(a, g[1]); a.push(g[2]); cmp_jump("EQ")
        elif k == "lt":
            a.push(g[2]); self._arg(a, g[1]); cmp_jump("LT")
        elif k == "gt":
            a.push(g[2]); self._arg(a, g[1]); cmp_jump("GT")
        elif k == "slt":
            a.push(g[2]); self._arg(a, g[1]); cmp_jump("SLT")
        elif k == "sge":
            a.push(g[2]); self._arg(a, g[1]); cmp_jump("SLT", invert=True)
        elif k == "addeq":
            a.push(g[2]); self._arg(a, g[1]); a.op("ADD"); a.push(g[3]); cmp_jump("EQ")
        elif k == "and":
            a.push(g[2]); self._arg(a, g[1]); a.op("AND"); a.push(g[3]); cmp_jump("EQ")
        elif k == "xor":
            a.push(g[2]); self._arg(a, g[1]); a.op("XOR"); a.push(g[3]); cmp_jump("EQ")
        elif k == "muleq":
            a.push(g[2]); self._arg(a, g[1]); a.op("MUL"); a.push(g[3]); cmp_jump("EQ")
        elif k == "diveq":
            a.push(g[2]); self._arg(a, g[1]); a.op("DIV"); a.push(g[3]); cmp_jump("EQ")
        elif k == "modeq":
            a.push(g[2]); self._arg(a, g[1]); a.op("MOD"); a.push(g[3]); cmp_jump("EQ")
        elif k == "mul2":
            self._arg(a, g[2]); self._arg(a, g[1]); a.op("MUL"); a.push(g[3]); cmp_jump("EQ")
        elif k == "div2":
            self._arg(a, g[2]); self._arg(a, g[1]); a.op("DIV"); a.push(g[3]); cmp_jump("EQ")
        elif k in ("mod2", "smod2", "sdiv2"):
            # (arg_i + 7) OP arg_j == r
            self._arg(a, g[2]); a.push(7); self._arg(a, g[1]); a.op("ADD")
            a.op({"mod2": "MOD", "smod2": "SMOD", "sdiv2": "SDIV"}[k]); a.push(g[3]); cmp_jump("EQ")
        elif k in ("addmod3", "mulmod3"):
            # OPMOD(arg_i, arg_j + 3, arg_m) == r
            self._arg(a, g[3]); a.push(3); self._arg(a, g[2]); a.op("ADD"); self._arg(a, g[1])
            a.op("ADDMOD" if k == "addmod3" else "MULMOD"); a.push(g[4]); cmp_jump("EQ")
        elif k == "exp2":
            # arg_i ** (arg_j & 0xff) == c
            a.push(0xFF); self._arg(a, g[2]); a.op("AND"); self._arg(a, g[1]); a.op("EXP"); a.push(g[3]); cmp_jump("EQ")
        elif k == "lt2":
            self._arg(a, g[2]); self._arg(a, g[1]); cmp_jump("LT")
        elif k == "ge2":
            self._arg(a, g[2]); self._arg(a, g[1]); cmp_jump("LT", invert=True)
        elif k == "hasheq":
            self._arg(a, g[1]); a.push(0).op("MSTORE"); a.push(0x20).push(0).op("SHA3"); a.push(g[2]); cmp_jump("EQ")
        elif k == "state_eq":
            a.push(0).op("SLOAD"); self._arg(a, g[1]); cmp_jump("EQ")
        elif k == "blockval":
            a.op(g[1]); a.push(g[2]); cmp_jump("EQ")
        elif k == "contra_hashinj":
            # arg_i + 1 != arg_i is always true, yet keccak(arg_i + 1) == keccak(arg_i) would need a collision
            self._arg(a, g[1]); a.push(0).op("MSTORE"); a.push(0x20).push(0).op("SHA3")
            a.push(1); self._arg(a, g[1]); a.op("ADD"); a.push(0).op("MSTORE"); a.push(0x20).push(0).op("SHA3")
            cmp_jump("EQ")
        elif k == "stateconst":
            a.push(0).op("SLOAD"); a.push(g[1]); cmp_jump("EQ")
        elif k == "state_ne":
            a.push(0).op("SLOAD"); self._arg(a, g[1]); cmp_jump("EQ", invert=True)
        elif k == "len":
            a.push(self._bytes_base()).op("CALLDATALOAD"); a.push(g[1]); cmp_jump("EQ")
        elif k == "bword":
            a.push(self._bytes_base() + 32).op("CALLDATALOAD"); a.push(g[1]); cmp_jump("EQ")
        elif k == "contra_eq2":
            self._arg(a, g[1]); a.push(g[2]); cmp_jump("EQ")
            self._arg(a, g[1]); a.push((g[2] + 1) & M256); cmp_jump("EQ")
        elif k == "contra_parity":
            a.push(1); self._arg(a, g[1]); a.op("AND"); a.push(0); cmp_jump("EQ")
            a.push(1); self._arg(a, g[1]); a.op("AND"); a.push(1); cmp_jump("EQ")
        elif k == "contra_range":
            a.push(5); self._arg(a, g[1]); cmp_jump("LT")
            a.push(9); self._arg(a, g[1]); cmp_jump("GT")
        elif k == "contra_mulparity":
            # x * 2 == odd constant: impossible also modulo 2^256
            a.push(2); self._arg(a, g[1]); a.op("MUL"); a.push(0x1235); cmp_jump("EQ")
        elif k in ("contra_divzero", "contra_modzero", "contra_smodzero", "contra_sdivzero"):
            # arg_j == 0  and  (arg_i + 7) OP arg_j == 7: on the EVM anything divided by / modulo zero is 0
            self._arg(a, g[3]); a.push(0); cmp_jump("EQ")
            self._arg(a, g[3]); a.push(7); self._arg(a, g[1]); a.op("ADD")
            a.op({"contra_divzero": "DIV", "contra_modzero": "MOD", "contra_smodzero": "SMOD", "contra_sdivzero": "SDIV"}[k])
            a.push(7); cmp_jump("EQ")
        elif k in ("contra_addmodzero", "contra_mulmodzero"):
            # arg_j == 0  and  OPMOD(arg_i, 1, arg_j) == arg_i  and  arg_i == 5
            self._arg(a, g[3]); a.push(0); cmp_jump("EQ")
            if g[3] != g[1]:
                self._arg(a, g[1]); a.push(5); cmp_jump("EQ")
                self._arg(a, g[3]); a.push(1); self._arg(a, g[1])
                a.op("ADDMOD" if k == "contra_addmodzero" else "MULMOD"); a.push(6 if k == "contra_addmodzero" else 5); cmp_jump("EQ")
            else:
                self._arg(a, g[3]); a.push(1); a.push(5)
                a.op("ADDMOD" if k == "contra_addmodzero" else "MULMOD"); a.push(6 if k == "contra_addmodzero" else 5); cmp_jump("EQ")
        elif k == "contra_lenbad":
            a.push(self._bytes_base()).op("CALLDATALOAD"); a.push(7); cmp_jump("EQ")  # 7 is not a configured length
        else:
            raise AssertionError(k)

    def emit_other(self, a, kind):
        if kind == "success":
            a.op("STOP")
        elif kind == "revert":
            a.push(0).push(0).op("REVERT")
        elif kind == "invalid":
            a.op("INVALID")
        else:  # a Panic whose code is not in --panic-error-codes: not an assertion failure
            A.emit_panic(a, 0x32)

    def emit_leaf(self, a):
        if self.leaf == "panic":
            A.emit_panic(a, self.panic_code)
        elif self.leaf == "asserttrue":
            A.emit_vm_call(a, "assertTrue(bool)", [0])
            a.op("POP").op("STOP")
        elif self.leaf == "asserteq":
            # vm.assertEq(a0, a0 + 1): always false
            A.emit_vm_call(a, "assertEq(uint256,uint256)",
                           [lambda a_: self._arg(a_, 0), lambda a_: (self._arg(a_, 0), a_.push(1), a_.op("ADD"))])
            a.op("POP").op("STOP")
        else:  # nested: this.helper() panics, the caller bubbles the revert data up
            sel = int.from_bytes(A.selector("helper()"), "big")
            a.push(sel << 224).push(0x300).op("MSTORE")
            a.push(0).push(0).push(4).push(0x300).push(0).op("ADDRESS").push(0xFFFF).op("CALL")
            ok = a.fresh("ok")
            a.jumpi(ok)
            a.op("RETURNDATASIZE").push(0).push(0).op("RETURNDATACOPY")
            a.op("RETURNDATASIZE").push(0).op("REVERT")
            a.label(ok)
            a.op("STOP")

    def build(self):
        def slot_form(a, form, key):
            if form == "lit":
                a.push(int.from_bytes(keccak256(key.to_bytes(32, "big") + (1).to_bytes(32, "big")), "big"))
            else:
                a.push(key).push(0).op("MSTORE").push(1).push(0x20).op("MSTORE").push(0x40).push(0).op("SHA3")

        def body(a):
            fail = a.fresh("other")
            if self.block_cheat:
                A.emit_vm_call(a, "warp(uint256)" if self.block_cheat[0] == "warp" else "roll(uint256)", [self.block_cheat[1]])
                a.op("POP")
            if self.diamond:
                d1 = a.fresh("dia")
                self._arg(a, 0); a.push(2).op("AND").jumpi(d1)
                a.push(0).op("POP")
                a.label(d1)
            if self.store_form:
                wform, rform, key = self.store_form
                a.push(0x77); slot_form(a, wform, key); a.op("SSTORE")
                slot_form(a, rform, key); a.op("SLOAD"); a.push(0x77).op("EQ").op("ISZERO").jumpi(fail)
            for g in self.guards:
                self.emit_guard(a, g, fail)
            self.emit_leaf(a)
            a.label(fail)
            # a second, independent branch so that there is usually a success path
            nxt = a.fresh("tail")
            self._arg(a, 0); a.push(1).op("AND").jumpi(nxt)
            self.emit_other(a, self.other)
            a.label(nxt)
            self.emit_other(a, self.tail)

        def helper(a):
            A.emit_panic(a, self.panic_code)

        def setup(a):
            if not self.setup_sym:
                a.push(self.setup_value or 0).push(0).op("SSTORE")
                return
            bad = a.fresh("bad")
            for name, slot in (("s", 0), ("t", None)):
                A.emit_vm_call(a, "createUint256(string)", [0x20, 1, ord(name) << 248], addr=A.SVM_ADDR, mem=0x300, ret_size=0x20)
                a.op("POP")
                a.push(0x400).op("MLOAD")
                if slot is not None:
                    a.op("DUP1").push(5).op("LT").op("ISZERO").jumpi(bad)  # require(s > 5)
                    a.push(slot).op("SSTORE")
                else:
                    a.push(100).op("SWAP1").op("LT").op("ISZERO").jumpi(bad)  # require(t < 100)
            a.op("STOP")
            a.label(bad)
            a.push(0).push(0).op("REVERT")

        self.emit_body, self.emit_helper, self.emit_setup = body, helper, setup
        fns = {self.sig: body, "helper()": helper}
        abis = [A.abi_item(self.sig, self.names), A.abi_item("helper()")]
        if self.setup_value is not None:
            fns["setUp()"] = setup
            abis.append(A.abi_item("setUp()"))
        rt = A.build_runtime(fns)
        cj = A.contract_json("T", "test/T.sol", rt, abis)
        return rt, cj, A.build_out_map([("T.sol", "T", cj)])

    # ---- concrete encoding + reference execution
    def calldata(self, statics, blen=0, bdata=b""):
        cd = A.selector(self.sig)
        for v in statics:
            cd += (v & M256).to_bytes(32, "big")
        if self.has_bytes:
            cd += (32 * (self.nstatic + 1)).to_bytes(32, "big")
            cd += blen.to_bytes(32, "big")
            padded = (bdata + bytes(blen))[:blen]
            cd += padded + bytes((-blen) % 32)
        return cd

    def reference_outcome(self, rt, cd, sym=None):
        """-> 'fail' | 'ok' | 'revert' | 'halt' for the concrete call from the post-setUp state"""
        w = World()
        w.code[TEST_ADDR] = rt
        w.storage[TEST_ADDR] = {}
        w.transient[TEST_ADDR] = {}
        w.balance[TEST_ADDR] = 0xFFFFFFFFFFFFFFFFFFFFFFFF
        st = {"failed": False}

        symvals = {"s": self.setup_value, "t": self.wt}
        symvals.update(sym or {})

        def cheat(evm, fr, sub, to, args):
            sel = args[:4]
            if to == A.SVM_ADDR:
                if sel == A.selector("createUint256(string)"):
                    n = int.from_bytes(args[36:68], "big")
                    name = args[68:68 + n].decode()
                    return True, (symvals.get(name) or 0).to_bytes(32, "big")
                return False, b""
            if sel in (A.selector("warp(uint256)"), A.selector("roll(uint256)")):
                evm.block["timestamp" if sel == A.selector("warp(uint256)") else "number"] = int.from_bytes(args[4:36], "big")
                return True, b""
            if sel == A.selector("assertTrue(bool)"):
                if int.from_bytes(args[4:36], "big") == 0:
                    st["failed"] = True
            elif sel == A.selector("assertEq(uint256,uint256)"):
                if args[4:36] != args[36:68]:
                    st["failed"] = True
            return True, b""

        evm = RefEVM(w, cheat=cheat, cheat_addrs=(A.VM_ADDR, A.SVM_ADDR), addr_oracle=lambda *a: 0xC0DE)
        if self.setup_value is not None:
            fr = evm.run_tx(TEST_ADDR, CALLER, CALLER, 0, A.selector("setUp()"))
            if fr.error is not None:
                return "setup-failed"
        fr = evm.run_tx(TEST_ADDR, CALLER, CALLER, 0, cd)
        if st["failed"]:
            return "fail"
        if fr.error == "revert" and len(fr.output) == 36 and fr.output[:4] == bytes.fromhex("4e487b71") and \
                int.from_bytes(fr.output[4:], "big") in PANIC_SET:
            return "fail"
        if fr.error is None:
            return "ok"
        return "revert" if fr.error == "revert" else "halt"


def decode_model(case: Case, model) -> tuple[list[int], int, bytes] | None:
    """PotentialModel -> (statics, bytes length, bytes data); None if a variable is missing (defaults to 0)"""
    vals = {}
    for full, var in model.model.items():
        vals[(var.variable_name, var.solidity_type)] = var.value
    statics = [vals.get((f"a{i}", "uint256"), 0) for i in range(case.nstatic)]
    case.model_alternatives = None
    if getattr(case, "unnamed", False):
        # which unnamed value belongs to which position is not recoverable from the printed names: every assignment counts
        import itertools

        anon = [var.value for var in model.model.values() if var.variable_name == "" and var.solidity_type == "uint256"]
        anon = (anon + [0] * case.nstatic)[: max(case.nstatic, len(anon))]
        case.model_alternatives = [list(p_[: case.nstatic]) for p_ in set(itertools.permutations(anon, len(anon)))]
        statics = case.model_alternatives[0]
    case.model_sym = {k: vals[(k, "uint256")] for k in ("s", "t") if (k, "uint256") in vals}
    blen, bdata = 0, b""
    if case.has_bytes:
        blen = vals.get(("bs", "length"), 0)
        raw = vals.get(("bs", "bytes"), 0)
        nbits = next((v.size_bits for (n, t), v in ((k, model.model[f]) for f, k in
                      ((f, (model.model[f].variable_name, model.model[f].solidity_type)) for f in model.model))
                      if n == "bs" and t == "bytes"), 0)
        bdata = raw.to_bytes(nbits // 8, "big") if nbits else b""
        if ("bs", "length") not in vals:
            # the length of a path's dynamic parameter is a concrete candidate, not a model variable: it is
            # what halmos prints as the width of p_bs_bytes
            blen = nbits // 8
    return statics, blen, bdata


class C03Check:
    property_id = "C03"
    name = "c03-run-sim"
    level = "exploration"
    mine = ("C03:",)
    rule = ("each run = one generated test contract: optional setUp() writing state, check_g(uint256 x1-3[, bytes]) = a chain of 1-4 "
            "guards over the parameters / setUp state (==, <, >, signed <, +c, &mask, ^c, *c, /c, %c, x*y, x/y, x<y, keccak(x)==h, "
            "sload==x, TIMESTAMP/NUMBER == the value this test set with vm.warp / vm.roll or the default, length of bytes, first word of bytes), optionally behind a no-op diamond, ending in a FAIL leaf (Panic with a configured code, vm.assertTrue(false), "
            "vm.assertEq(a,a+1), nested call whose Panic is bubbled up); other paths end in success / revert / INVALID / Panic with "
            "an unlisted code. Reachable cases are built around a planted witness that the reference EVM confirms; unreachable cases "
            "add a contradiction. run_contract runs under the simulator (real yices or z3 binary for truthful replies; swarm: solver, "
            "storage layout, solver threads, cache, uid mode; faulted class additionally branching `unknown`, solver reply faults, "
            "latencies, line-level pre-emption). Fault-free oracle: reachable => FAIL, unreachable with a success path => PASS. "
            "Faulted oracle: PASS only if unreachable. distinct = distinct (contract hash, event-log digest); non-trivial = >=1 solver "
            "query was answered and the witness classification was confirmed on the reference EVM")
    assumptions = [
        "ground truth by construction + confirmation of the planted witness on the independent reference EVM",
        "unreachable cases rely on elementary contradictions (x==c and x==c+1, parity, empty range, 2x==odd, keccak(x)==keccak(x+1), x op 0 forms, length outside the configured candidates)",
        "bytes parameters use the candidate lengths 0/32/65 passed as --default-bytes-lengths; inputs outside the printed bounds are not claimed",
        "truthful solver replies come from the real yices-smt2 / z3 binaries; a lying solver is not in the fault model",
    ]
    components = {
        "real": ["halmos.__main__ run_contract / setup / run_test", "halmos.calldata", "halmos.solve (incl. refine, model parsing)",
                 "halmos.processes", "halmos.sevm + cheatcodes", "z3 (branching)", "yices-smt2 / z3 binaries"],
        "stub": ["thread scheduling", "ThreadPoolExecutor (model)", "Popen / psutil (simulated)", "clock", "uuid4", "forge"],
    }
    tiers = {
        "quick": {"budget_s": 75, "run_timeout": 90, "shrink_budget": 60},
        "thorough": {"budget_s": 900, "run_timeout": 90, "shrink_budget": 240},
    }

    def prepare(self):
        import halmos.__main__  # noqa: F401

    def run_one(self, ch, keep_log=False, **_):
        import halmos.__main__ as hm

        faulted = ch.chance(0.35, "sw.faulted")
        solver = ch.choose(["yices", "yices", "yices", "yices", "z3"], "sw.solver")
        layout = ch.choose(["solidity", "generic"], "sw.layout")
        threads = ch.choose([1, 2, 4], "sw.threads")
        cache = ch.chance(0.3, "sw.cache")
        uid_mode = ch.choose(["random", "sequential", "repeat"], "sw.uid")
        unknown_rate = ch.choose([0.0, 0.1, 1.0], "sw.unk") if faulted else 0.0
        fault_rate = ch.choose([0.0, 0.3], "sw.frate") if faulted else 0.0
        preempt_k = ch.choose([0, 0, 10], "sw.preempt") if faulted else 0
        case = Case(ch, allow_unnamed=True)
        if case.unnamed and uid_mode == "repeat":
            # without parameter names the fresh-symbol suffix is all that separates two parameters: an all-equal suffix stream
            # (impossible for uuid4) would merge them - not a fault halmos has to survive
            uid_mode = "sequential"
        rt, cj, bom = case.build()
        # confirm the construction on the reference EVM
        wit = case.reference_outcome(rt, case.calldata(case.w, case.wlen, case.wbytes))
        if case.reachable and wit != "fail":
            return dict(violations=[], inconclusive="witness-not-confirmed", faults={}, probes={"witness_mismatch": 1}, digest="x",
                        shape="x", nontrivial=False, sim_seconds=0.0, steps=0,
                        descriptor=dict(guards=case.guards, w=[hex(x) for x in case.w], got=wit))
        # --early-exit: the first valid counterexample shuts the executor down, killing solvers that are still printing
        early_exit = ch.chance(0.3, "sw.early")
        # the size candidates of dynamic parameters are a user-given list in the user's order (--default-bytes-lengths 65,0,32):
        # the calldata has to be wide enough for the largest candidate wherever it is listed
        blens = ch.choose([[65, 32, 0], [32, 65, 0], [65, 0, 32], [0, 65, 32], [32, 0, 65]], "sw.blens.order") if ch.chance(0.5, "sw.blens.shuffle") else list(BYTES_LENGTHS)
        args = R.make_args(solver_threads=threads, cache_solver=cache, storage_layout=layout, early_exit=early_exit,
                           panic_error_codes=set(PANIC_SET), default_bytes_lengths=blens)

        def main():
            ctx = R.make_contract_ctx(args, "T", "test/T.sol", cj, [case.sig], bom)
            return hm.run_contract(ctx)

        out = R.run_under_sim(ch, main, solver=solver, fault_rate=fault_rate, preempt_k=preempt_k, keep_log=keep_log,
                              unknown_rate=unknown_rate, uid_mode=uid_mode, max_steps=60000,
                              kinds=["unknown", "hang", "crash_empty", "crash_partial", "garbage", "error_line",
                                     "rc_nonzero_valid", "spawn_oserror", "slow"])
        violations = []
        probes = {"queries": len(out.stub.history), "reachable": int(case.reachable), "faulted": int(faulted),
                  "refined_queries": sum(1 for h in out.stub.history if h["refined"])}
        verdict = None
        res0 = out.results[0] if out.results else None
        if out.outcome == "deadlock":
            violations.append(dict(oracle="C03:hang", disc="deadlock", detail=f"parked {out.sim.deadlock_info}"))
        elif out.outcome == "step-cap":
            pass
        elif res0 is None:
            if not faulted:
                violations.append(dict(oracle="C03:no-result", disc=type(out.exception).__name__ if out.exception else "empty",
                                       detail=f"run_contract returned {out.results!r} exception {out.exception!r}; stdout {out.stdout[-400:]!r}; "
                                              f"warnings {out.warnings[-3:]}"))
        else:
            verdict = VERDICT_OF_EXIT.get(res0.exitcode, "?")
            probes["verdict_" + verdict] = 1
            bounded = res0.num_bounded_loops or any("incomplete execution" in wmsg for wmsg in out.warnings)
            has_success = case.other == "success" or case.tail == "success"
            if verdict == "PASS" and case.reachable and not bounded:
                violations.append(dict(
                    oracle="C03:pass-but-reachable", disc=("faulted" if faulted else "faultfree") + ":" + case.leaf,
                    detail=f"[PASS] although {case.sig} with args {[hex(x) for x in case.w]} (bytes len {case.wlen}) ends in an assertion "
                           f"failure on the reference EVM; guards {case.guards}; leaf {case.leaf}; faults {out.sim.fault_counts}; "
                           f"queries {[(h['file'], h['kind'], h['truth']) for h in out.stub.history]}"))
            if not faulted and verdict != "PASS" and not case.reachable and has_success and not case.uses_exp:
                violations.append(dict(
                    oracle="C03:faultfree-verdict-mismatch", disc=f"{verdict}-for-unreachable",
                    detail=f"[{verdict}] for a test whose failure leaf is guarded by a contradiction ({case.guards}); "
                           f"models {[str(m) for m in (res0.models or [])][:2]}; warnings {out.warnings[-3:]}"))
            truth_unknown = any(h["truth"] == "unknown" for h in out.stub.history)
            if not faulted and verdict not in ("FAIL",) and case.reachable and verdict != "PASS" and not (
                    verdict == "TIMEOUT" and truth_unknown) and not case.uses_exp:
                violations.append(dict(
                    oracle="C03:faultfree-verdict-mismatch", disc=f"{verdict}-for-reachable",
                    detail=f"[{verdict}] instead of FAIL for a reachable failure; guards {case.guards}; warnings {out.warnings[-3:]}; "
                           f"queries {[(h['file'], h['kind'], h['truth']) for h in out.stub.history]}"))
            # ---------------- C04: every model marked valid replays; abstract models are never valid
            truncated_reply = any(h["kind"] == "crash_partial" for h in out.stub.history)
            if truncated_reply:
                probes["models_from_truncated_output_not_judged"] = 1
            for mdl in ([] if truncated_reply else (res0.models or [])):
                dec = decode_model(case, mdl)
                statics, blen, bdata = dec
                cd = case.calldata(statics, blen, bdata)
                got = case.reference_outcome(rt, cd, sym=case.model_sym)
                for alt in (case.model_alternatives or [])[1:]:
                    if got == "fail":
                        break
                    got = case.reference_outcome(rt, case.calldata(alt, blen, bdata), sym=case.model_sym)
                if mdl.is_valid:
                    probes["valid_models"] = probes.get("valid_models", 0) + 1
                    if got != "fail" and not case.uses_hash:
                        violations.append(dict(
                            oracle="C04:valid-model-does-not-replay", disc=case.leaf,
                            detail=f"counterexample marked valid {[hex(x) for x in statics]} (bytes len {blen}) ends in '{got}' on the "
                                   f"reference EVM, not in the assertion failure; guards {case.guards}"))
                else:
                    probes["invalid_models"] = probes.get("invalid_models", 0) + 1
            for h in out.stub.history:
                if first_line(h["stdout"]) == "sat" and "f_evm_" in h["stdout"]:
                    probes["abstract_model_replies"] = probes.get("abstract_model_replies", 0) + 1
            # a reply that still mentions an abstraction must not surface as a *valid* model
            final_by_path = {}
            for h in out.stub.history:
                final_by_path[h["path_id"]] = h
            abstract_final = [h for h in final_by_path.values() if first_line(h["stdout"]) == "sat" and "f_evm_" in h["stdout"]
                              and h["kind"] in ("truth", "rc_nonzero_valid")]
            n_valid = sum(1 for mdl in (res0.models or []) if mdl.is_valid)
            n_sat_final = sum(1 for h in final_by_path.values() if first_line(h["stdout"]) == "sat"
                              and h["kind"] in ("truth", "rc_nonzero_valid", "crash_partial"))
            if abstract_final and n_valid > n_sat_final - len(abstract_final):
                violations.append(dict(
                    oracle="C04:abstract-model-marked-valid", disc="f_evm-in-final-reply",
                    detail=f"{n_valid} models marked valid but only {n_sat_final - len(abstract_final)} final sat replies are free of "
                           f"f_evm_ abstractions; final replies {[(h['file'], h['kind']) for h in abstract_final]}"))
            # printed values are exactly the solver's
            for mdl in (res0.models or []):
                src = None
                for h in out.stub.history:
                    if all(self._model_value_in(h["stdout"], v) for v in mdl.model.values()) and mdl.model:
                        src = h
                        break
                if mdl.model and src is None:
                    violations.append(dict(
                        oracle="C04:printed-value-differs", disc="no-solver-output-has-these-values",
                        detail=f"model {str(mdl)[:300]} does not occur in any solver output of this test"))
        incon = None
        if out.stub.wall_timeouts:
            incon, violations = "truthful-solver-wall-timeout", []
        mine = [v for v in violations if v["oracle"].startswith(self.mine)]
        digest = out.sim.digest()
        rtsha = __import__("hashlib").sha1(rt).hexdigest()[:12]
        faults = dict(out.sim.fault_counts)
        for k, n in out.eseam.faults.items():
            faults[k] = faults.get(k, 0) + n
        res = dict(violations=[{k: v[k] for k in ("oracle", "disc", "detail")} for v in mine], inconclusive=incon,
                   faults=faults, probes=probes, digest=digest, shape=rtsha,
                   nontrivial=probes["queries"] >= 1, sim_seconds=out.sim.now, steps=out.sim.steps,
                   descriptor=dict(sig=case.sig, guards=[list(map(lambda x: hex(x) if isinstance(x, int) and x > 9 else x, g)) for g in case.guards],
                                   reachable=case.reachable, leaf=case.leaf, other=case.other, tail=case.tail,
                                   witness=[hex(x) for x in case.w], verdict=verdict, faulted=faulted, solver=solver, layout=layout,
                                   cache=cache, threads=threads, unknown_rate=unknown_rate, fault_rate=fault_rate, uid_mode=uid_mode,
                                   unnamed=case.unnamed, bytes_lengths=blens,
                                   queries=[(h["file"], h["kind"], h["truth"]) for h in out.stub.history][:8]))
        if keep_log:
            res["log"] = [("stdout", out.stdout[-1500:]), ("warnings", out.warnings[-10:]), ("code", rt.hex())] + list(out.sim.log[-40:])
        return res

    @staticmethod
    def _stuck_ok(out):
        return False

    @staticmethod
    def _model_value_in(stdout, var):
        """the value of a model variable occurs in the solver output in one of the three syntaxes"""
        v, n = var.value, var.size_bits
        cands = [f"#x{v:0{n // 4}x}" if n % 4 == 0 else None, f"#b{v:0{n}b}", f"(_ bv{v} {n})"]
        return var.full_name in stdout and any(c and c in stdout for c in cands)


def first_line(s):
    i = s.find("\n")
    return s[:i] if i != -1 else s


def factory():
    return C03Check()


if __name__ == "__main__":
    from hsim.runner import main_for

    sys.exit(main_for(factory))
