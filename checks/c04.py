"""C04 - counterexamples marked valid are reproducible (run-sim; same cases as C03, C04 oracles)."""

from __future__ import annotations

import os
import sys

sys.path.insert(0, os.path.dirname(os.path.dirname(os.path.abspath(__file__))))

from checks.c03 import C03Check  # noqa: E402


class C04Check(C03Check):
    property_id = "C04"
    name = "c04-run-sim"
    mine = ("C04:",)
    rule = ("same generated test contracts as C03, biased to reachable failures: every counterexample in TestResult.models is "
            "decoded (p_<name>_<type> variables, bytes via p_<name>_length) with an independent ABI encoder and executed on the "
            "reference EVM from the post-setUp state: a model marked valid must end in the reported assertion failure (cases whose "
            "guards hash symbolic data are exempt, as the statement allows); a final solver reply that still mentions an f_evm_ "
            "abstraction must not yield a valid model; every reported value must literally occur in a solver output of the test "
            "(#x / #b / (_ bvN W) syntaxes; yices prints decimal, z3 hex). distinct = distinct (contract hash, event-log digest); "
            "non-trivial = >=1 model was reported")

    def run_one(self, ch, keep_log=False, **kw):
        res = super().run_one(ch, keep_log=keep_log, **kw)
        p = res["probes"]
        res["nontrivial"] = (p.get("valid_models", 0) + p.get("invalid_models", 0)) >= 1
        return res


def factory():
    return C04Check()


if __name__ == "__main__":
    from hsim.runner import main_for

    sys.exit(main_for(factory))
