"""C01 - every reported execution path is a real EVM behaviour (engine-sim)."""

from __future__ import annotations

import os
import sys

sys.path.insert(0, os.path.dirname(os.path.dirname(os.path.abspath(__file__))))

from checks.engine_common import engine_run  # noqa: E402

ENGINE_ASSUMPTIONS = [
    "reference EVM (evm/refevm.py) is new independent code; it mirrors only abstractions the statement grants halmos: no gas metering, memory > 2^20 is out-of-gas, created addresses taken from halmos' trace (address oracle), top-level message does not move value, balances <= 2^64 in generated inputs, stack depth < 1024, code < 24 KiB",
    "GAS/GASPRICE/BLOCKHASH/precompiles other than identity are opaque: (path, input) pairs touching them are skipped and counted (probe opaque_skipped)",
    "harness-side z3 queries are bounded by rlimit (deterministic); unknown = inconclusive, counted",
    "standard interpretation: exact definitions of f_evm_* added per application, f_sha3_N fixed to keccak by fixpoint iteration",
]
ENGINE_COMPONENTS = {
    "real": ["halmos.sevm (SEVM.run, Exec, Path, storage models)", "halmos.bitvec", "halmos.bytevec", "halmos.contract",
             "halmos.cheatcodes (when called)", "in-process z3 (branching solver)"],
    "stub": ["branching solver verdicts may be replaced by unknown (N1)", "uuid4 (N6)", "gc timing (N7)",
             "no external solver / threads in this world"],
}


class C01Check:
    property_id = "C01"
    name = "c01-engine-sim"
    level = "exploration"
    oracle_prefixes = ("ENGINE:endstate-mismatch",)
    rename = {"ENGINE:endstate-mismatch": "C01:endstate-mismatch"}
    rule = ("each run = one generated multi-contract world (swarm of features: arithmetic, signed ops, mulmod/exp, memory, "
            "copy ops, hashing, storage/transient/mappings, logs, nested CALL/STATICCALL/DELEGATECALL/CALLCODE, CREATE/CREATE2, "
            "loops, symbolic caller/origin/value/balances) explored by SEVM.run under seeded faults (branch unknown rate "
            "0/3%/30%/100%, uid stream random/sequential/repeating, gc between paths, --loop 1-4, both storage layouts); "
            "every reported non-stuck path gets >=1 input from a model of its constraints (standard keccak/arithmetic "
            "interpretation) plus 6 generated inputs; each (path, input) pair is replayed on the reference EVM and the whole "
            "frame tree (context fields, outcome class, output bytes, every SLOAD/SSTORE/TLOAD/TSTORE/LOG in order, sub-frames), "
            "final balances and code are compared. distinct = distinct (world hash, path list, query count); non-trivial = "
            ">=2 reported paths or >=1 fault fired, and >=1 (path,input) pair judged")
    assumptions = ENGINE_ASSUMPTIONS
    components = ENGINE_COMPONENTS
    tiers = {
        "quick": {"budget_s": 60, "runs_per_fork": 20, "run_timeout": 120, "shrink_budget": 60},
        "thorough": {"budget_s": 900, "runs_per_fork": 20, "run_timeout": 120, "shrink_budget": 240},
    }
    bias = None
    kwargs = {}

    def prepare(self):
        import halmos.__main__  # noqa: F401
        import halmos.sevm  # noqa: F401

    def run_one(self, ch, keep_log=False, **_):
        violations, st = engine_run(ch, bias=self.bias, **self.kwargs)
        mine = []
        for v in violations:
            if v["oracle"].startswith(self.oracle_prefixes):
                v = self.refine(dict(v))
                if v is not None:
                    v["oracle"] = self.rename.get(v["oracle"], v["oracle"])
                    mine.append(v)
        seen = set()
        uniq = []
        for v in mine:
            k = (v["oracle"], v["disc"])
            if k not in seen:
                seen.add(k)
                uniq.append({k2: v[k2] for k2 in ("oracle", "disc", "detail")})
        probes = st["probes"]
        nontrivial = (st["npaths"] >= 2 or bool(st["faults"])) and probes.get("pairs_judged", 0) >= 1
        res = dict(violations=uniq, inconclusive=st["inconclusive"], faults=st["faults"], probes=probes,
                   digest=st["digest"], shape=st["shape"], nontrivial=nontrivial, sim_seconds=0.0,
                   steps=st["queries"], descriptor=st["descriptor"])
        if keep_log:
            res["log"] = [("world", st["world"].describe())]
        return res

    def refine(self, v):
        return v


def factory():
    return C01Check()


if __name__ == "__main__":
    from hsim.runner import main_for

    sys.exit(main_for(factory))
