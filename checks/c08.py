"""C08 - storage reads return the last write to the same slot; no aliasing (engine-sim, storage-heavy worlds)."""

from __future__ import annotations

import os
import sys

sys.path.insert(0, os.path.dirname(os.path.dirname(os.path.abspath(__file__))))

from checks.c01 import C01Check  # noqa: E402

STORAGE_KINDS = {"load-mismatch", "storage-slot"}


class C08Check(C01Check):
    property_id = "C08"
    name = "c08-engine-sim"
    rename = {"ENGINE:endstate-mismatch": "C08:load-mismatch"}
    rule = ("storage-heavy generated worlds: sequences of SSTORE/SLOAD/TSTORE/TLOAD over Solidity-layout location expressions "
            "(scalars, mapping(k), nested mappings, keccak(slot)+i arrays, packed 20-byte keys, +offset struct members, raw "
            "symbolic slots in the generic layout) with concrete and symbolic keys from small colliding domains, optionally with "
            "symbolic initial storage (the reference then takes the first-read values from halmos' trace under the model and a "
            "constant where an unconstrained value is required is a violation), in both "
            "--storage-layout modes, under branching-solver unknowns (which decide whether Exec.select may skip a store). "
            "Oracle: lock-step comparison with the reference EVM (real keccak) of every SLOAD/TLOAD value and slot, in program "
            "order, for a model of each reported path and for generated inputs incl. ones making two symbolic keys equal; "
            "a violation is a load whose value or slot differs. distinct = distinct (world hash, path list, query count); "
            "non-trivial = >=1 storage read compared and (>=2 paths or a fault fired)")
    bias = dict(storage=True, mapping=True, hashing=True, transient=True, calls=False, creates=False, logs=False,
                copyops=False, msize=False, exp=False, mulmod=False, balance_reads=False, value_calls=False,
                n_bases=2, env=False, signed=False, max_stmts=7, max_expr_depth=1)
    kwargs = {"n_sigmas": 8, "check_pruned": False, "small_keys": True, "symbolic_storage_rate": 0.3}
    oracle_prefixes = ("ENGINE:endstate-mismatch", "ENGINE:initial-not-unconstrained")
    rename = {"ENGINE:endstate-mismatch": "C08:load-mismatch", "ENGINE:initial-not-unconstrained": "C08:initial-not-unconstrained"}

    def refine(self, v):
        if v["oracle"] == "ENGINE:initial-not-unconstrained":
            return v
        if not (set(v.get("kinds", [])) & STORAGE_KINDS):
            return None
        if v.get("quirk"):
            return None
        v["disc"] = "storage-slot" if "storage-slot" in v["kinds"] else "load-mismatch"
        return v


    def run_one(self, ch, keep_log=False, **kw):
        res = super().run_one(ch, keep_log=keep_log, **kw)
        res["nontrivial"] = bool(res["nontrivial"]) and res["probes"].get("ref_loads", 0) >= 1
        return res


def factory():
    return C08Check()


if __name__ == "__main__":
    from hsim.runner import main_for

    sys.exit(main_for(factory))
