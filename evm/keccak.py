"""Keccak-256 (the pre-NIST padding used by Ethereum), written from the Keccak reference;
independent of halmos and of eth_hash (which the self-test cross-checks against)."""

from __future__ import annotations

from functools import lru_cache

_RC = [
    0x0000000000000001, 0x0000000000008082, 0x800000000000808A, 0x8000000080008000,
    0x000000000000808B, 0x0000000080000001, 0x8000000080008081, 0x8000000000008009,
    0x000000000000008A, 0x0000000000000088, 0x0000000080008009, 0x000000008000000A,
    0x000000008000808B, 0x800000000000008B, 0x8000000000008089, 0x8000000000008003,
    0x8000000000008002, 0x8000000000000080, 0x000000000000800A, 0x800000008000000A,
    0x8000000080008081, 0x8000000000008080, 0x0000000080000001, 0x8000000080008008,
]
_ROT = [
    [0, 36, 3, 41, 18],
    [1, 44, 10, 45, 2],
    [62, 6, 43, 15, 61],
    [28, 55, 25, 21, 56],
    [27, 20, 39, 8, 14],
]
_M = (1 << 64) - 1


def _rol(x, n):
    n %= 64
    return ((x << n) | (x >> (64 - n))) & _M if n else x


def _f1600(a):
    for rnd in range(24):
        c = [a[x][0] ^ a[x][1] ^ a[x][2] ^ a[x][3] ^ a[x][4] for x in range(5)]
        d = [c[(x - 1) % 5] ^ _rol(c[(x + 1) % 5], 1) for x in range(5)]
        a = [[a[x][y] ^ d[x] for y in range(5)] for x in range(5)]
        b = [[0] * 5 for _ in range(5)]
        for x in range(5):
            for y in range(5):
                b[y][(2 * x + 3 * y) % 5] = _rol(a[x][y], _ROT[x][y])
        a = [[b[x][y] ^ ((~b[(x + 1) % 5][y]) & b[(x + 2) % 5][y]) for y in range(5)] for x in range(5)]
        a[0][0] ^= _RC[rnd]
    return a


def _keccak256(data: bytes) -> bytes:
    rate = 136
    p = bytearray(data)
    p.append(0x01)
    while len(p) % rate:
        p.append(0)
    p[-1] |= 0x80
    a = [[0] * 5 for _ in range(5)]
    for off in range(0, len(p), rate):
        blk = p[off:off + rate]
        for i in range(rate // 8):
            x, y = i % 5, i // 5
            a[x][y] ^= int.from_bytes(blk[8 * i:8 * i + 8], "little")
        a = _f1600(a)
    out = b""
    for i in range(4):
        x, y = i % 5, i // 5
        out += a[x][y].to_bytes(8, "little")
    return out


@lru_cache(maxsize=65536)
def keccak256(data: bytes) -> bytes:
    return _keccak256(bytes(data))


def keccak_int(data: bytes) -> int:
    return int.from_bytes(keccak256(bytes(data)), "big")


def selector(sig: str) -> bytes:
    return keccak256(sig.encode())[:4]
