"""Reference semantics of the Foundry vm.assert* / vm.assume cheatcodes, written from the forge-std signatures.

The selector of each cheatcode is computed here from its signature *string*; the meaning follows from the name and
the parameter types (signedness from int256 / uint256, element-wise equality with equal lengths for arrays,
length-sensitive equality for bytes / string).  Independent of halmos.
"""

from __future__ import annotations

from . import abi
from .keccak import keccak256

VM = 0x7109709ECFA91A80626FF3989D68F67F5B1DD12D
SCALARS = ["bool", "uint256", "int256", "address", "bytes32", "string", "bytes"]


class CheatStop(Exception):
    def __init__(self, kind, text=""):
        super().__init__(kind)
        self.kind = kind  # 'assert-failed' | 'assume-rejected' | 'malformed'
        self.text = text


def _sel(sig):
    return keccak256(sig.encode())[:4]


def _signed(x):
    return x - (1 << 256) if x >> 255 else x


def build_table():
    t = {}
    for op in ("True", "False"):
        for tail in ("", ",string"):
            sig = f"assert{op}(bool{tail})"
            t[_sel(sig)] = (sig, op, ["bool"] + (["string"] if tail else []))
    for op in ("Eq", "NotEq"):
        for typ in SCALARS + [s + "[]" for s in SCALARS]:
            for tail in ("", ",string"):
                sig = f"assert{op}({typ},{typ}{tail})"
                t[_sel(sig)] = (sig, op, [typ, typ] + (["string"] if tail else []))
    for op in ("Lt", "Gt", "Le", "Ge"):
        for typ in ("uint256", "int256"):
            for tail in ("", ",string"):
                sig = f"assert{op}({typ},{typ}{tail})"
                t[_sel(sig)] = (sig, op, [typ, typ] + (["string"] if tail else []))
    return t


TABLE = build_table()
ASSUME = _sel("assume(bool)")


def relation_holds(op, types, vals):
    if op in ("True", "False"):
        return (vals[0] != 0) == (op == "True")
    a, b = vals[0], vals[1]
    if op in ("Eq", "NotEq"):
        return (a == b) == (op == "Eq")  # ints, bytes, lists of ints / bytes: equal length and equal elements
    if types[0] == "int256":
        a, b = _signed(a), _signed(b)
    return {"Lt": a < b, "Gt": a > b, "Le": a <= b, "Ge": a >= b}[op]


def handler(evm, fr, sub, to, args: bytes):
    """the `cheat` callback of evm.refevm.RefEVM for the vm address"""
    sel = bytes(args[:4])
    if sel == ASSUME:
        if int.from_bytes(args[4:36].ljust(32, b"\0"), "big") == 0:
            raise CheatStop("assume-rejected")
        return True, b""
    ent = TABLE.get(sel)
    if ent is None:
        raise CheatStop("unknown-cheatcode", sel.hex())
    sig, op, types = ent
    try:
        vals = abi.decode(types, args, 4)
    except ValueError as e:
        raise CheatStop("malformed", f"{sig}: {e}") from e
    if not relation_holds(op, types, vals):
        raise CheatStop("assert-failed", sig)
    return True, b""
