"""Hand-assembled Foundry-style build artifacts (there is no solc / forge in the sandbox).

A test contract is described by a table  signature -> body emitter;  this module lowers it to
runtime code with a selector dispatcher, wraps it into creation code, and produces the
`contract_json` dictionary (abi, methodIdentifiers, bytecode, deployedBytecode, devdoc, ast) in the
shape halmos reads from `out/<File>.sol/<Name>.json`.  Independent of halmos.
"""

from __future__ import annotations

import re

from .asm import Asm, initcode_for
from .keccak import keccak256

VM_ADDR = 0x7109709ECFA91A80626FF3989D68F67F5B1DD12D
SVM_ADDR = 0xF3993A62377BCD56AE39D773740A5390411E8BC9
PANIC_SELECTOR = 0x4E487B71


def selector(sig: str) -> bytes:
    return keccak256(sig.encode())[:4]


def split_sig(sig: str):
    m = re.match(r"^([A-Za-z_][A-Za-z0-9_]*)\((.*)\)$", sig)
    name, inner = m.group(1), m.group(2)
    types = []
    depth = 0
    cur = ""
    for c in inner:
        if c == "," and depth == 0:
            types.append(cur)
            cur = ""
        else:
            depth += c == "("
            depth -= c == ")"
            cur += c
    if cur:
        types.append(cur)
    return name, types


def abi_item(sig: str, param_names=None, outputs=(), mutability="nonpayable") -> dict:
    name, types = split_sig(sig)
    names = list(param_names or [f"p{i}" for i in range(len(types))])
    return {
        "type": "function", "name": name,
        "inputs": [{"name": n, "type": t, "internalType": t} for n, t in zip(names, types)],
        "outputs": [{"name": "", "type": t, "internalType": t} for t in outputs],
        "stateMutability": mutability,
    }


def emit_panic(a: Asm, code: int):
    a.push(PANIC_SELECTOR << 224).push(0).op("MSTORE")
    a.push(code).push(4).op("MSTORE")
    a.push(0x24).push(0).op("REVERT")


def emit_vm_call(a: Asm, sig: str, words: list, addr=VM_ADDR, mem=0x300, ret_size=0, emit_word=None):
    """CALL the cheat address with selector(sig) followed by 32-byte words.
    words: ints (pushed) or callables emitting code that leaves one word on the stack."""
    sel = int.from_bytes(selector(sig), "big")
    a.push(sel << 224).push(mem).op("MSTORE")
    for i, w in enumerate(words):
        if callable(w):
            w(a)
        else:
            a.push(w)
        a.push(mem + 4 + 32 * i).op("MSTORE")
    a.push(ret_size).push(mem + 0x100).push(4 + 32 * len(words)).push(mem).push(0).push(addr).push(0xFFFF).op("CALL")


def build_runtime(functions: dict, fallback=None) -> bytes:
    """functions: {signature: emitter(Asm)}; each emitter must end every path in a terminating opcode"""
    a = Asm()
    a.push(0).op("CALLDATALOAD").push(224).op("SHR")
    labels = {}
    for sig in functions:
        lbl = a.fresh("fn")
        labels[sig] = lbl
        a.op("DUP1").push(int.from_bytes(selector(sig), "big"), 4).op("EQ").jumpi(lbl)
    if fallback is not None:
        fallback(a)
    else:
        a.push(0).push(0).op("REVERT")
    for sig, emit in functions.items():
        a.label(labels[sig])
        a.op("POP")
        emit(a)
        a.op("STOP")
    return a.assemble()


def contract_json(name: str, file: str, runtime: bytes, functions_abi: list[dict], creation: bytes | None = None,
                  devdoc_methods: dict | None = None, contract_devdoc: dict | None = None, ast_id: int = 1) -> dict:
    creation = creation if creation is not None else initcode_for(runtime)
    from_sig = {}
    for item in functions_abi:
        sig = item["name"] + "(" + ",".join(_abi_type(i) for i in item["inputs"]) + ")"
        from_sig[sig] = selector(sig).hex()
    devdoc = {"kind": "dev", "methods": devdoc_methods or {}, "version": 1}
    if contract_devdoc:
        devdoc.update(contract_devdoc)
    return {
        "abi": functions_abi,
        "bytecode": {"object": "0x" + creation.hex(), "sourceMap": "", "linkReferences": {}},
        "deployedBytecode": {"object": "0x" + runtime.hex(), "sourceMap": "", "linkReferences": {}},
        "methodIdentifiers": from_sig,
        "rawMetadata": "",
        "metadata": {"compiler": {"version": "0.8.26+commit.8a97fa7a"}, "language": "Solidity",
                     "output": {"abi": functions_abi, "devdoc": devdoc, "userdoc": {"kind": "user", "methods": {}, "version": 1}},
                     "settings": {}, "sources": {}, "version": 1},
        "ast": {"absolutePath": file, "id": ast_id, "exportedSymbols": {name: [ast_id + 1]}, "nodeType": "SourceUnit",
                "src": "0:0:0", "nodes": [{"nodeType": "ContractDefinition", "name": name, "id": ast_id + 1,
                                            "contractKind": "contract", "nodes": [], "src": "0:0:0",
                                            "abstract": False, "baseContracts": [], "linearizedBaseContracts": [ast_id + 1]}]},
        "id": 0,
    }


def _abi_type(inp: dict) -> str:
    t = inp["type"]
    if t.startswith("tuple"):
        return "(" + ",".join(_abi_type(c) for c in inp["components"]) + ")" + t[5:]
    return t


def build_out_map(entries: list[tuple[str, str, dict]]) -> dict:
    """entries: (file name e.g. 'T.sol', contract name, contract_json) -> {file: {name: (json, 'contract', natspec)}}"""
    out: dict = {}
    for file, name, cj in entries:
        out.setdefault(file, {})[name] = (cj, "contract", {})
    return out
