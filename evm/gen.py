"""Seeded generators of EVM programs and multi-contract worlds (independent of halmos).

Everything is drawn from a hsim.choices.Choices stream, so a program is a pure function of the
run's choice list and shrinks with it (0 = the simplest alternative everywhere).
"""

from __future__ import annotations

from .asm import Asm

M256 = (1 << 256) - 1
CALLEE_BASE = 0x1000
TARGET = 0x7FA9385BE102AC3EAC297483DD6233D62B3E1496  # same address halmos uses for the test contract
EOA1 = 0x00000000000000000000000000000000C0FFEE01
EOA2 = 0x00000000000000000000000000000000C0FFEE02

BIN = ["ADD", "SUB", "MUL", "DIV", "MOD", "LT", "GT", "EQ", "AND", "OR", "XOR", "SHL", "SHR", "SDIV", "SMOD",
       "SLT", "SGT", "SAR", "BYTE", "EXP", "SIGNEXTEND"]
TER = ["ADDMOD", "MULMOD"]


class Feat:
    """feature switches / weights of one generated world (swarm configuration)"""

    def __init__(self, **kw):
        self.n_inputs = 3
        self.max_expr_depth = 3
        self.max_stmts = 6
        self.max_block_depth = 2
        self.storage = True
        self.transient = True
        self.mapping = True
        self.hashing = True
        self.memory = True
        self.logs = True
        self.calls = True
        self.creates = True
        self.loops = True
        self.env = True
        self.signed = True
        self.mulmod = True
        self.exp = True
        self.copyops = True
        self.msize = True
        self.symbolic_target = False
        self.static_value_call = True
        self.rdc_zero_oob = True
        self.n_callees = 2
        self.call_depth = 2
        self.selector = False
        self.balance_reads = True
        self.value_calls = True
        self.generic_layout = False
        self.raw_symbolic_slot = False
        self.big_offsets = False
        self.if_weight = 3
        self.n_bases = 4
        self.guards = 2
        self.badjump = True
        self.__dict__.update(kw)


class ProgGen:
    def __init__(self, ch, feat: Feat, world: "WorldSpec", depth_left: int, name: str, is_init=False):
        self.ch = ch
        self.f = feat
        self.world = world
        self.depth_left = depth_left
        self.name = name
        self.a = Asm()
        self.is_init = is_init
        self.n_loops = 0

    # ------------------------------------------------------------------ expressions
    def const(self, lbl):
        ch = self.ch
        k = ch.pick(7, lbl + ".ck")
        if k == 0:
            v = ch.pick(4, lbl + ".c")
        elif k == 1:
            v = ch.choose([0xFF, 0x100, 0x7F, 0x80, 31, 32, 33, 255, 256, 257, 0xFFFF], lbl + ".c")
        elif k == 2:
            v = M256 - ch.pick(3, lbl + ".c")
        elif k == 3:
            v = (1 << 255) + ch.choose([0, 1, -1], lbl + ".c")
        elif k == 4:
            v = 1 << ch.choose([8, 64, 128, 160, 248, 255], lbl + ".c")
        elif k == 5:
            v = ch.pick(1 << 16, lbl + ".c")
        else:
            v = ch.bits(256, lbl + ".c")
        self.a.push(v & M256)

    def input_word(self, lbl):
        i = self.ch.pick(max(self.f.n_inputs, 1), lbl + ".in")
        base = 4 if self.f.selector else 0
        self.a.push(base + 32 * i).op("CALLDATALOAD")

    def slot_expr(self, lbl):
        """pushes a storage location following Solidity layout patterns"""
        ch, a, f = self.ch, self.a, self.f
        kinds = ["scalar"]
        if f.mapping and f.hashing:
            kinds += ["map", "map", "array", "nested", "packedkey", "arrayconst", "mapconst", "reordered", "bigkey", "array2d"]
        if f.raw_symbolic_slot:
            kinds += ["rawsym"]
        k = ch.choose(kinds, lbl + ".sk")
        base = ch.pick(self.f.n_bases, lbl + ".base")
        if k == "scalar":
            a.push(base)
        elif k == "map":
            # keccak(key . base)
            self.key_expr(lbl + ".k")
            a.push(0).op("MSTORE")
            a.push(base).push(0x20).op("MSTORE")
            a.push(0x40).push(0).op("SHA3")
            if ch.chance(0.3, lbl + ".off"):
                a.push(ch.int(1, 3, lbl + ".o")).op("ADD")
        elif k == "array":
            # keccak(base) + idx
            self.key_expr(lbl + ".i", small=True)
            a.push(base).push(0).op("MSTORE")
            a.push(0x20).push(0).op("SHA3")
            a.op("ADD")
        elif k == "arrayconst":
            # the compiler's form of a[i +- d]: a precomputed constant keccak(base) +- delta, plus the index
            from .keccak import keccak256

            h = int.from_bytes(keccak256(base.to_bytes(32, "big")), "big")
            delta = ch.choose([0, 1, -1, 2, -2], lbl + ".hd")
            a.push((h + delta) & M256)
            self.key_expr(lbl + ".i", small=True)
            if ch.chance(0.5, lbl + ".swap"):
                a.op("SWAP1")
            a.op("ADD")
        elif k == "mapconst":
            # m[k] for a concrete k, as the precomputed constant keccak(k . base) (+ struct member offset)
            from .keccak import keccak256

            # generation bound: only constants halmos can invert at all, i.e. the ones in its precomputed
            # table (keys 0 and 1, slots < 256); any other literal hash is an opaque number to every tool
            key = ch.pick(2, lbl + ".mk")
            h = int.from_bytes(keccak256(key.to_bytes(32, "big") + base.to_bytes(32, "big")), "big")
            a.push((h + ch.choose([0, 0, 1, 2], lbl + ".mo")) & M256)
        elif k == "reordered":
            # (off + keccak(base)) + idx  with the additions associated the other way round
            self.key_expr(lbl + ".i", small=True)
            a.push(ch.choose([1, 2], lbl + ".ro"))
            a.push(base).push(0).op("MSTORE")
            a.push(0x20).push(0).op("SHA3")
            a.op("ADD").op("ADD")
        elif k == "nested":
            # keccak(k2 . keccak(k1 . base))
            self.key_expr(lbl + ".k1")
            a.push(0).op("MSTORE")
            a.push(base).push(0x20).op("MSTORE")
            a.push(0x40).push(0).op("SHA3")
            a.push(0x20).op("MSTORE")
            self.key_expr(lbl + ".k2")
            a.push(0).op("MSTORE")
            a.push(0x40).push(0).op("SHA3")
        elif k == "bigkey":
            # mapping(bytes => ..) with a 96-byte key: keccak(key . base) over exactly 128 bytes, the first key word concrete or
            # symbolic, the other two fixed (so that a concrete and a symbolic spelling of one location meet)
            self.key_expr(lbl + ".k")
            a.push(0x200).op("MSTORE")
            a.push(0x1111).push(0x220).op("MSTORE")
            a.push(0x2222).push(0x240).op("MSTORE")
            a.push(base).push(0x260).op("MSTORE")
            a.push(0x80).push(0x200).op("SHA3")
        elif k == "array2d":
            # a[i][j] of a uint[][]: keccak(keccak(base) + i) + j.  Generation bound: a base slot has one type, as in Solidity -
            # the 2-D arrays live at their own base (10), never at a base that is also used as a mapping or a 1-D array
            base = 10
            self.key_expr(lbl + ".i", small=True)
            a.push(base).push(0).op("MSTORE")
            a.push(0x20).push(0).op("SHA3")
            a.op("ADD")
            a.push(0).op("MSTORE")
            a.push(0x20).push(0).op("SHA3")
            self.key_expr(lbl + ".j", small=True)
            a.op("ADD")
        elif k == "packedkey":
            # keccak(key(20 bytes) . base) - key of width != 256
            self.key_expr(lbl + ".k")
            a.push(96).op("SHL")
            a.push(0).op("MSTORE")
            a.push(base).push(20).op("MSTORE")
            a.push(52).push(0).op("SHA3")
        else:
            self.input_word(lbl)

    def key_expr(self, lbl, small=False):
        ch = self.ch
        k = ch.pick(4, lbl + ".kk")
        if k == 0:
            self.a.push(ch.choose([0, 1, 2, 10], lbl + ".c") if not small else ch.pick(3, lbl + ".c"))
        elif k == 1:
            self.input_word(lbl)
            if small:
                self.a.push(3).op("AND")
        elif k == 2:
            self.a.op("CALLER")
            if small:
                self.a.push(3).op("AND")
        else:
            self.input_word(lbl)
            self.a.push(ch.choose([1, 3, 0xFF], lbl + ".m")).op("AND")

    def expr(self, depth, lbl):
        ch, a, f = self.ch, self.a, self.f
        if depth <= 0:
            k = ch.pick(3, lbl + ".leaf")
            if k == 0:
                self.const(lbl)
            elif k == 1:
                self.input_word(lbl)
            else:
                self.leaf(lbl)
            return
        kinds = ["leaf", "bin", "bin", "un"]
        if f.mulmod:
            kinds.append("ter")
        if f.hashing:
            kinds.append("sha3")
        if f.storage:
            kinds.append("sload")
        if f.memory:
            kinds.append("mload")
        k = ch.choose(kinds, lbl + ".ek")
        if k == "leaf":
            self.expr(0, lbl + "l")
        elif k == "un":
            self.expr(depth - 1, lbl + "u")
            a.op(ch.choose(["ISZERO", "NOT"], lbl + ".uop"))
        elif k == "bin":
            ops = BIN[:12]
            if f.signed:
                ops = ops + BIN[12:19]
            if f.exp:
                ops = ops + ["EXP"]
            if f.signed:
                ops = ops + ["SIGNEXTEND"]
            op = ch.choose(ops, lbl + ".bop")
            self.expr(depth - 1, lbl + "b")
            if op == "EXP":
                # keep the exponent below 512: halmos evaluates concrete**concrete with unbounded
                # Python integers (a C06 matter, outside what this check decides)
                a.push(0x1FF).op("AND")
            if op == "SIGNEXTEND":
                a.push(ch.choose([0, 1, 15, 30, 31, 32], lbl + ".se"))
            elif op == "EXP" and ch.chance(0.7, lbl + ".expc"):
                # exponent: a; base: top.  keep one side constant most of the time
                a.push(ch.choose([2, 0, 1, 3, 10, 256], lbl + ".eb"))
            else:
                self.expr(depth - 1, lbl + "a")
            a.op(op)
        elif k == "ter":
            self.expr(depth - 1, lbl + "m")
            self.expr(depth - 1, lbl + "y")
            self.expr(depth - 1, lbl + "x")
            a.op(ch.choose(TER, lbl + ".top"))
        elif k == "sha3":
            n = ch.int(1, 2, lbl + ".hn")
            for i in range(n):
                self.expr(depth - 1, lbl + f"h{i}")
                a.push(32 * i).op("MSTORE")
            size = 32 * n if ch.chance(0.8, lbl + ".hs") else ch.choose([0, 1, 20, 33], lbl + ".hz")
            a.push(size).push(0).op("SHA3")
        elif k == "sload":
            self.slot_expr(lbl + "s")
            a.op("TLOAD" if (f.transient and ch.chance(0.25, lbl + ".t")) else "SLOAD")
        elif k == "mload":
            a.push(ch.choose([0x80, 0x00, 0xA0, 0x9F, 0x100, 0x20], lbl + ".mo")).op("MLOAD")

    def leaf(self, lbl):
        ch, a, f = self.ch, self.a, self.f
        ks = ["CALLER", "CALLVALUE", "CALLDATASIZE"]
        if f.env:
            ks += ["ORIGIN", "ADDRESS", "CODESIZE", "TIMESTAMP", "NUMBER", "CHAINID", "PC", "RETURNDATASIZE",
                   "COINBASE", "BASEFEE", "GASLIMIT", "DIFFICULTY"]
        if f.balance_reads:
            ks += ["SELFBALANCE", "BALANCE"]
        if f.msize:
            ks += ["MSIZE"]
        if f.env and self.world.addrs:
            ks += ["EXTCODESIZE", "EXTCODEHASH"]
        k = ch.choose(ks, lbl + ".lk")
        if k == "BALANCE":
            a.push(ch.choose(self.world.known_addrs(), lbl + ".ba")).op("BALANCE")
        elif k in ("EXTCODESIZE", "EXTCODEHASH"):
            a.push(ch.choose(self.world.known_addrs() + [0xDEAD], lbl + ".xa")).op(k)
        else:
            a.op(k)

    # ------------------------------------------------------------------ statements
    def ret_epilogue(self, lbl):
        """return a few observable words"""
        ch, a = self.ch, self.a
        n = ch.int(1, 3, lbl + ".rn")
        for i in range(n):
            self.expr(min(1, self.f.max_expr_depth), lbl + f"r{i}")
            a.push(0x80 + 32 * i).op("MSTORE")
        a.push(32 * n).push(0x80)

    def terminator(self, lbl):
        ch, a = self.ch, self.a
        k = ch.choose(["return", "return", "revert", "stop", "invalid", "panic", "retmem"], lbl + ".tk")
        if k == "return":
            self.ret_epilogue(lbl)
            a.op("RETURN")
        elif k == "revert":
            self.ret_epilogue(lbl)
            a.op("REVERT")
        elif k == "stop":
            a.op("STOP")
        elif k == "invalid":
            a.op("INVALID")
        elif k == "panic":
            code = ch.choose([0x01, 0x11, 0x12, 0x32], lbl + ".pc")
            a.push(0x4E487B71 << 224).push(0).op("MSTORE")
            a.push(code).push(4).op("MSTORE")
            a.push(0x24).push(0).op("REVERT")
        else:
            off = ch.choose([0, 0x80, 0x60, 0x1F], lbl + ".ro")
            size = ch.choose([0x40, 0, 1, 0x20, 0x60, 100, 4, 0x21], lbl + ".rs")
            a.push(size).push(off).op(ch.choose(["RETURN", "REVERT"], lbl + ".rr"))

    def stmt(self, bdepth, lbl):
        ch, a, f = self.ch, self.a, self.f
        kinds = ["mstore", "if"]
        if bdepth > 0:
            kinds += ["if"] * f.if_weight
        if f.storage:
            kinds += ["sstore", "sstore", "sload_obs", "rmw"]
        if f.transient:
            kinds += ["tstore"]
        if f.storage and f.mapping and f.hashing and bdepth > 0:
            kinds += ["sibling_hash"]
        if f.storage and f.mapping and f.hashing:
            kinds += ["cross2d"]
        if f.logs:
            kinds += ["log"]
        if f.calls and self.depth_left > 0 and self.world.callee_addrs(self.depth_left):
            kinds += ["call", "call", "call"]
        if f.creates and self.depth_left > 0 and not self.is_init:
            kinds += ["create"]
        if f.loops and self.n_loops < 2 and bdepth > 0:
            kinds += ["loop"]
        if f.copyops:
            kinds += ["copy"]
        if f.memory:
            kinds += ["mstore8"]
        if f.badjump:
            kinds += ["badjump"]
        k = ch.choose(kinds, lbl + ".sk")
        d = f.max_expr_depth
        if k == "mstore":
            self.expr(d, lbl + "v")
            a.push(ch.choose([0x80, 0xA0, 0xC0, 0x81, 0x9F, 0x100], lbl + ".mo")).op("MSTORE")
        elif k == "mstore8":
            self.expr(d - 1, lbl + "v")
            a.push(ch.choose([0x80, 0x9F, 0xA0, 0xBF], lbl + ".mo")).op("MSTORE8")
        elif k == "sstore":
            self.expr(d, lbl + "v")
            self.slot_expr(lbl + "l")
            a.op("SSTORE")
        elif k == "rmw":
            # read-modify-write of one location: the new value depends on what the location held
            slot_c = ch.pick(4, lbl + ".rs")
            t = f.transient and ch.chance(0.25, lbl + ".rt")
            a.push(slot_c).op("TLOAD" if t else "SLOAD")
            a.push(ch.choose([1, 2, 0x10], lbl + ".rc")).op("ADD")
            a.push(slot_c).op("TSTORE" if t else "SSTORE")
        elif k == "tstore":
            self.expr(d - 1, lbl + "v")
            self.slot_expr(lbl + "l")
            a.op("TSTORE")
        elif k == "cross2d":
            # a mapping element m[k] at base b written, an element a[i][j] of the 2-D array at base 10 read (or the other way
            # round): different slots for every k, i, j - also where a flattened (base, key, key) view of the two would coincide
            b_ = ch.pick(2, lbl + ".xb")

            def m_slot():
                if ch.chance(0.5, lbl + ".xk"):
                    a.push(10)
                else:
                    self.input_word(lbl + "xk")
                    a.push(0xF).op("AND")
                a.push(0).op("MSTORE")
                a.push(b_).push(0x20).op("MSTORE")
                a.push(0x40).push(0).op("SHA3")

            def a_slot():
                if ch.chance(0.5, lbl + ".xi"):
                    a.push(b_)
                else:
                    self.input_word(lbl + "xi")
                    a.push(1).op("AND")
                a.push(10).push(0).op("MSTORE")
                a.push(0x20).push(0).op("SHA3")
                a.op("ADD")
                a.push(0).op("MSTORE")
                a.push(0x20).push(0).op("SHA3")
                if not ch.chance(0.5, lbl + ".xj"):
                    self.input_word(lbl + "xj")
                    a.push(1).op("AND")
                    a.op("ADD")

            first, second = (m_slot, a_slot) if ch.chance(0.5, lbl + ".xo") else (a_slot, m_slot)
            self.expr(1, lbl + "v")
            first()
            a.op("SSTORE")
            second()
            a.op("SLOAD")
            a.push(ch.choose([0xC0, 0xE0], lbl + ".mo")).op("MSTORE")
        elif k == "sibling_hash":
            # a slot written and read through a literal that is a keccak image nobody computes on *this* path, while a sibling
            # path (which ends right there) computes the same hash at run time: what one path learns about hashes must not
            # change how another path decodes the literal.  (Dedicated base slot 9: no other statement hashes into it.)
            from .keccak import keccak256

            key = 0x10 + ch.pick(4, lbl + ".shk")
            lit = int.from_bytes(keccak256(key.to_bytes(32, "big") + (9).to_bytes(32, "big")), "big")
            self.expr(1, lbl + "v")
            a.push(lit).op("SSTORE")
            hash_side, load_side = a.fresh("shash"), a.fresh("sload")
            self.cond(lbl + "c")
            if ch.chance(0.7, lbl + ".shfall"):
                a.jumpi(load_side)  # the hashing side is the fall-through side (explored first)
            else:
                a.op("ISZERO").jumpi(load_side)
            a.push(key).push(0).op("MSTORE")
            a.push(9).push(0x20).op("MSTORE")
            a.push(0x40).push(0).op("SHA3")
            a.push(0xE0).op("MSTORE")
            self.terminator(lbl + "t")
            a.label(load_side)
            a.push(lit).op("SLOAD")
            a.push(ch.choose([0xC0, 0xE0], lbl + ".mo")).op("MSTORE")
        elif k == "sload_obs":
            self.slot_expr(lbl + "l")
            a.op("SLOAD")
            a.push(ch.choose([0xC0, 0xE0], lbl + ".mo")).op("MSTORE")
        elif k == "log":
            n = ch.pick(3, lbl + ".ln")
            for i in range(n):
                self.expr(1, lbl + f"t{i}")
            a.push(ch.choose([0x20, 0, 0x40], lbl + ".ls")).push(0x80).op(f"LOG{n}")
        elif k == "if":
            if bdepth <= 0:
                self.expr(d, lbl + "v")
                a.op("POP")
                return
            els, end = a.fresh("else"), a.fresh("end")
            self.cond(lbl + "c")
            a.op("ISZERO").jumpi(els)
            self.block(bdepth - 1, lbl + "T", allow_term=True)
            a.jump(end)
            a.label(els)
            if ch.chance(0.5, lbl + ".else"):
                self.block(bdepth - 1, lbl + "E", allow_term=True)
            a.label(end)
        elif k == "badjump":
            # a conditional jump to a place that is not a JUMPDEST: the taken side halts exceptionally, the fall-through goes on
            self.cond(lbl + "c")
            a.push(ch.choose([0xFFFF, 0xFFF1], lbl + ".bt")).op("JUMPI")
        elif k == "loop":
            self.loop(bdepth, lbl)
        elif k == "copy":
            self.copyop(lbl)
        elif k == "call":
            self.call(lbl)
        elif k == "create":
            self.create(lbl)

    def cond(self, lbl):
        ch, a = self.ch, self.a
        k = ch.pick(6 if self.f.hashing else 5, lbl + ".ck")
        if k == 5:
            # comparisons between a hash and sums of hashes / constants: halmos assumes `hash + small offset` never wraps
            # (a documented modelling assumption); anything else about such sums has to go to the solver
            i, j = ch.pick(max(self.f.n_inputs, 1), lbl + ".hi"), ch.pick(max(self.f.n_inputs, 1), lbl + ".hj")
            base = 4 if self.f.selector else 0

            def h(ix):
                a.push(base + 32 * ix).op("CALLDATALOAD").push(0).op("MSTORE").push(0x20).push(0).op("SHA3")

            form = ch.choose(["sum2", "sum2c", "bigoff", "negoff"], lbl + ".hf")
            h(i)                      # the hash compared against (created first)
            if form in ("sum2", "sum2c"):
                h(j); h(i); a.op("ADD")
                if form == "sum2c":
                    a.push(ch.choose([5, 1, 0x100], lbl + ".hc")).op("ADD")
            elif form == "bigoff":
                h(i); a.push(ch.choose([1 << 255, (1 << 256) - 1, 1 << 64, (1 << 64) - 1], lbl + ".hc")).op("ADD")
            else:
                a.push(ch.choose([1, 2, 0x100], lbl + ".hc")); h(i); a.op("SUB")
            a.op(ch.choose(["LT", "GT"], lbl + ".cop"))   # top (the sum) < / > the plain hash
        elif k == 4:
            # switch-like: the same few input words compared with small constants again and again
            a.push(ch.pick(4, lbl + ".sw"))
            self.input_word(lbl)
            a.op("EQ")
        elif k == 0:
            self.input_word(lbl)
            self.const(lbl + "c")
            a.op(ch.choose(["LT", "GT", "EQ", "SLT"], lbl + ".cop"))
        elif k == 1:
            self.expr(self.f.max_expr_depth, lbl + "e")
        elif k == 2:
            self.input_word(lbl + "a")
            self.input_word(lbl + "b")
            a.op(ch.choose(["LT", "EQ", "GT"], lbl + ".cop"))
        else:
            self.expr(1, lbl + "e")
            self.const(lbl + "c")
            a.op(ch.choose(["EQ", "LT", "GT", "SGT"], lbl + ".cop"))

    def loop(self, bdepth, lbl):
        ch, a = self.ch, self.a
        self.n_loops += 1
        top, end = a.fresh("loop"), a.fresh("lend")
        # counter at memory 0x160 (+0x20 for the second loop)
        ctr = 0x160 + 0x20 * self.n_loops
        if ch.chance(0.5, lbl + ".symtrip"):
            self.input_word(lbl + "n")
            a.push(ch.choose([3, 7, 1], lbl + ".lm")).op("AND")
        else:
            a.push(ch.int(0, 4, lbl + ".ln"))
        a.push(ctr).op("MSTORE")
        if ch.chance(0.4, lbl + ".dowhile"):
            # do { body; ctr-- } while (ctr != 0): the loop continuation is the *taken* side of a backward JUMPI
            a.push(ctr).op("MLOAD").op("ISZERO").jumpi(end)
            a.label(top)
            self.block(0, lbl + "B", allow_term=False, max_stmts=2)
            a.push(1).push(ctr).op("MLOAD").op("SUB").op("DUP1").push(ctr).op("MSTORE")
            a.jumpi(top)
            a.label(end)
            return
        a.label(top)
        a.push(ctr).op("MLOAD").op("ISZERO").jumpi(end)
        self.block(0, lbl + "B", allow_term=False, max_stmts=2)
        a.push(1).push(ctr).op("MLOAD").op("SUB").push(ctr).op("MSTORE")
        a.jump(top)
        a.label(end)

    def copyop(self, lbl):
        ch, a = self.ch, self.a
        k = ch.choose(["CALLDATACOPY", "CODECOPY", "MCOPY", "RETURNDATACOPY", "EXTCODECOPY"], lbl + ".ck")
        size = ch.choose([0x20, 0, 1, 0x40, 33], lbl + ".cs")
        src = ch.choose([0, 4, 0x20, 0x1F, 200], lbl + ".co")
        dst = ch.choose([0x80, 0xA0, 0x90], lbl + ".cd")
        if k != "MCOPY" and ch.chance(0.4, lbl + ".edge"):
            # a window placed relative to the end of the source (straddling it, ending exactly on it, or
            # starting behind it) copied over memory that was non-zero before
            back = ch.choose([4, 0, 1, 0x1F, 0x20, 0x21, 0x40], lbl + ".eb")
            if ch.chance(0.7, lbl + ".pre"):
                self.input_word(lbl + "p")
                a.push(dst).op("MSTORE")
            xa = ch.choose(self.world.known_addrs() + [0xDEAD], lbl + ".exa")
            a.push(size)
            a.push(back)
            if k == "CALLDATACOPY":
                a.op("CALLDATASIZE")
            elif k == "CODECOPY":
                a.op("CODESIZE")
            elif k == "RETURNDATACOPY":
                a.op("RETURNDATASIZE")
            else:
                a.push(xa).op("EXTCODESIZE")
            a.op("SUB")  # size_of_source - back (wraps when the source is shorter: a huge offset)
            a.push(dst)
            if k == "EXTCODECOPY":
                a.push(xa)
            a.op(k)
            return
        if k == "MCOPY":
            a.push(size).push(ch.choose([0x80, 0x90, 0xA0, 0x60], lbl + ".ms")).push(dst).op("MCOPY")
        elif k == "RETURNDATACOPY":
            if not self.f.rdc_zero_oob and size == 0:
                src = 0
            # guard with RETURNDATASIZE most of the time so that it does not always fail
            if ch.chance(0.7, lbl + ".guard"):
                skip = a.fresh("rdskip")
                a.push(src + size).op("RETURNDATASIZE").op("LT").jumpi(skip)
                a.push(size).push(src).push(dst).op("RETURNDATACOPY")
                a.label(skip)
            else:
                a.push(size).push(src).push(dst).op("RETURNDATACOPY")
        elif k == "EXTCODECOPY":
            a.push(size).push(src).push(dst).push(ch.choose(self.world.known_addrs() + [0xDEAD], lbl + ".xa")).op(k)
        else:
            a.push(size).push(src).push(dst).op(k)

    def call(self, lbl):
        ch, a, f = self.ch, self.a, self.f
        kind = ch.choose(["CALL", "STATICCALL", "DELEGATECALL", "CALLCODE", "CALL"], lbl + ".kind")
        targets = self.world.callee_addrs(self.depth_left)
        extra = [0xDEAD, 4]
        to = ch.choose(targets + targets + extra, lbl + ".to")
        # arguments: 1-2 words at 0x80
        n = ch.int(0, 2, lbl + ".argn")
        for i in range(n):
            self.expr(1, lbl + f"a{i}")
            a.push(0x80 + 32 * i).op("MSTORE")
        rsz = ch.choose([0x20, 0, 0x40, 1], lbl + ".rsz")
        # the output area of a call receives min(ret_size, RETURNDATASIZE) bytes; what lies behind them stays as it was
        area_check = ch.chance(0.3, lbl + ".area")
        if area_check:
            a.push(M256).push(0xC0).op("MSTORE").push(M256 - 1).push(0xE0).op("MSTORE")
        a.push(rsz).push(0xC0).push(32 * n).push(0x80)
        if kind in ("CALL", "CALLCODE"):
            if f.value_calls and ch.chance(0.4, lbl + ".val"):
                if ch.chance(0.5, lbl + ".symval"):
                    self.input_word(lbl + "v")
                    a.push(ch.choose([0xFF, 0xFFFF, 1, (1 << 256) - 1, 1 << 255], lbl + ".vm")).op("AND")
                else:
                    a.push(ch.choose([1, 5, 1000, 10**18, 1 << 255, (1 << 256) - 1], lbl + ".cv"))
            else:
                a.push(0)
        if f.symbolic_target and ch.chance(0.3, lbl + ".symto"):
            # generation bound: a symbolic target is never a precompile / cheatcode address
            # (halmos' alias resolution only considers deployed accounts and "no code")
            self.input_word(lbl + "t")
            a.push(0xFFFF).op("AND").push(0x1000).op("OR")
        else:
            a.push(to)
        if ch.chance(0.1, lbl + ".gasop"):
            a.op("GAS")
        else:
            a.push(ch.choose([0xFFFF, 0, 100000], lbl + ".gasc"))
        a.op(kind)
        if area_check:
            # (flag on the stack) fold both words of the output area into one observable word
            a.push(0xE0).op("MLOAD").push(0xC0).op("MLOAD").op("XOR")
            if f.storage:
                a.push(6).op("SSTORE")
            else:
                a.push(0x120).op("MSTORE")
        # observe success flag and returndata
        k = ch.pick(4, lbl + ".obs")
        if k == 0:
            a.op("POP")
        elif k == 1:
            a.push(0xE0).op("MSTORE")
        elif k == 2:
            ok = a.fresh("callok")
            a.jumpi(ok)
            # bubble up the revert data
            a.op("RETURNDATASIZE").push(0).push(0x80).op("RETURNDATACOPY")
            a.op("RETURNDATASIZE").push(0x80).op("REVERT")
            a.label(ok)
        else:
            a.push(0xE0).op("MSTORE")
            a.op("RETURNDATASIZE").push(0x100).op("MSTORE")

    def create_retry(self, lbl):
        """CREATE2 whose init code reverts when no value is sent, then the same CREATE2 (salt, init code) again with value 1:
        the first attempt must leave no trace at the address"""
        ch, a = self.ch, self.a
        i = Asm()
        ok = i.fresh("ok")
        i.op("CALLVALUE").jumpi(ok)
        i.push(0).push(0).op("REVERT")
        i.label(ok)
        i.push(0).push(0).op("MSTORE8").push(1).push(0).op("RETURN")
        init = i.assemble()
        tag = a.fresh("init")
        self.pending_data = getattr(self, "pending_data", [])
        self.pending_data.append((tag, init))
        salt = ch.pick(3, lbl + ".salt")
        for k, val in enumerate(ch.choose([(0, 1), (0, 0), (1, 1)], lbl + ".vals")):
            a.push(len(init)).ref(tag).push(0x200).op("CODECOPY")
            a.push(salt).push(len(init)).push(0x200).push(val).op("CREATE2")
            a.push(0xE0 + 0x20 * k).op("MSTORE")

    def create(self, lbl):
        ch, a = self.ch, self.a
        if self.f.value_calls and ch.chance(0.15, lbl + ".retry"):
            return self.create_retry(lbl)
        init = self.world.make_initcode(self.depth_left - 1, lbl)
        op = ch.choose(["CREATE", "CREATE2"], lbl + ".cop")
        # copy the init code from our own code into memory at 0x200
        tag = a.fresh("init")
        a.push(len(init)).ref(tag).push(0x200).op("CODECOPY")
        self.pending_data = getattr(self, "pending_data", [])
        self.pending_data.append((tag, init))
        if op == "CREATE2":
            a.push(ch.pick(3, lbl + ".salt"))
        a.push(len(init)).push(0x200)
        a.push(ch.choose([0, 0, 1, 7], lbl + ".cval") if self.f.value_calls else 0)
        a.op(op)
        k = ch.pick(3, lbl + ".cobs")
        if k == 0:
            a.op("POP")
        elif k == 1:
            a.push(0xE0).op("MSTORE")
        else:
            # call the created contract
            a.op("DUP1").push(0x120).op("MSTORE")
            a.push(0x20).push(0xC0).push(0).push(0x80).push(0)
            a.push(0x120).op("MLOAD").push(0xFFFF).op("CALL").op("POP").op("POP")

    def block(self, bdepth, lbl, allow_term, max_stmts=None):
        ch = self.ch
        n = ch.int(1, max_stmts or self.f.max_stmts, lbl + ".n")
        for i in range(n):
            self.stmt(bdepth, f"{lbl}{i}")
        if allow_term and ch.chance(0.35, lbl + ".term"):
            self.terminator(lbl + "t")

    def guard_chain(self, lbl):
        """if (cond_i) { block; terminator } ...  - a dispatcher-like prefix that forks paths early"""
        ch, a = self.ch, self.a
        n = ch.int(0, self.f.guards, lbl + ".gn")
        for i in range(n):
            nxt = a.fresh("guard")
            self.cond(f"{lbl}g{i}")
            a.op("ISZERO").jumpi(nxt)
            self.block(max(self.f.max_block_depth - 1, 0), f"{lbl}G{i}", allow_term=False, max_stmts=2)
            self.terminator(f"{lbl}G{i}t")
            a.label(nxt)

    def program(self) -> bytes:
        if self.f.guards and not self.is_init:
            self.guard_chain(self.name)
        self.block(self.f.max_block_depth, self.name, allow_term=False)
        self.terminator(self.name + "T")
        for tag, data in getattr(self, "pending_data", []):
            self.a.mark(tag).raw(data)
        return self.a.assemble()


class WorldSpec:
    """accounts + the top-level message of one run"""

    def __init__(self, ch, feat: Feat):
        self.ch = ch
        self.f = feat
        self.addrs: dict[int, bytes] = {}
        self.levels: dict[int, int] = {}  # callee addr -> how much call depth it may still use
        self.n_init = 0

    def known_addrs(self):
        return list(self.addrs) + [TARGET, EOA1]

    def callee_addrs(self, depth_left):
        return [a for a, lv in self.levels.items() if lv < depth_left]

    def make_initcode(self, depth_left, lbl):
        self.n_init += 1
        ch = self.ch
        k = ch.pick(4, lbl + ".ik")
        from .asm import initcode_for

        rt_gen = ProgGen(ch, self._sub_feat(), self, 0, f"{lbl}rt")
        runtime = rt_gen.program()
        if k == 0:
            return initcode_for(runtime)
        pro = ProgGen(ch, self._sub_feat(creates=False, calls=False, loops=False), self, 0, f"{lbl}ini", is_init=True)
        pro.block(0, f"{lbl}ib", allow_term=False, max_stmts=2)
        if k == 3:
            pro.terminator(f"{lbl}it")  # an init code that fails / returns garbage
            return pro.a.assemble()
        return initcode_for(runtime, pro.a)

    def _sub_feat(self, **kw):
        f = Feat(**self.f.__dict__)
        f.max_stmts = 3
        f.max_block_depth = 1
        f.max_expr_depth = min(f.max_expr_depth, 2)
        f.__dict__.update(kw)
        return f

    def build(self):
        ch, f = self.ch, self.f
        # callees from the leaves up, so that deeper callers can call shallower ones
        for lv in range(f.call_depth):
            for i in range(f.n_callees if lv == 0 else 1):
                addr = CALLEE_BASE + 0x100 * lv + i
                g = ProgGen(ch, self._sub_feat(), self, lv, f"c{lv}_{i}")
                self.levels[addr] = lv
                self.addrs[addr] = None
                self.addrs[addr] = g.program()
        g = ProgGen(ch, f, self, f.call_depth, "main")
        self.main = g.program()
        return self
