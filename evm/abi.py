"""Independent minimal ABI encoder/decoder (static words, bytes/string, one-level arrays) - used by the reference models."""

from __future__ import annotations

M256 = (1 << 256) - 1


def is_dynamic(t: str) -> bool:
    return t in ("bytes", "string") or t.endswith("[]")


def decode(types: list[str], data: bytes, base: int = 0):
    """decode the ABI tuple of `types` found at data[base:]; raises ValueError on malformed input"""
    out = []
    for i, t in enumerate(types):
        head = data[base + 32 * i: base + 32 * i + 32]
        if len(head) < 32:
            raise ValueError("short head")
        w = int.from_bytes(head, "big")
        if not is_dynamic(t):
            out.append(w)
            continue
        off = base + w
        if t in ("bytes", "string"):
            out.append(_bytes_at(data, off))
        else:
            n = _word(data, off)
            et = t[:-2]
            if is_dynamic(et):
                items = []
                for k in range(n):
                    eo = _word(data, off + 32 + 32 * k)
                    items.append(_bytes_at(data, off + 32 + eo))
                out.append(items)
            else:
                out.append([_word(data, off + 32 + 32 * k) for k in range(n)])
    return out


def _word(data, off):
    b = data[off:off + 32]
    if len(b) < 32:
        raise ValueError("short word")
    return int.from_bytes(b, "big")


def _bytes_at(data, off):
    n = _word(data, off)
    if n > 1 << 20:
        raise ValueError("huge length")
    b = data[off + 32: off + 32 + n]
    if len(b) < n:
        raise ValueError("short bytes")
    return bytes(b)


def layout(types: list[str], values: list):
    """ABI-encode as a list of 32-byte *cells*; a cell is an int (constant word) or any other object (a symbolic word the
    caller knows how to emit).  values: int/object for static words; for bytes/string a tuple (length, [cells of content]);
    for T[] a list of element cells (static T) or a list of (length, cells) (dynamic T)."""
    heads, tails = [], []
    head_size = 32 * len(types)

    def enc_bytes(v):
        n, cells = v
        return [n] + list(cells)

    for t, v in zip(types, values):
        if not is_dynamic(t):
            heads.append(v)
            continue
        heads.append(head_size + 32 * len(tails))
        if t in ("bytes", "string"):
            tails += enc_bytes(v)
        else:
            et = t[:-2]
            if is_dynamic(et):
                sub_heads, sub_tails = [], []
                for item in v:
                    sub_heads.append(32 * len(v) + 32 * len(sub_tails))
                    sub_tails += enc_bytes(item)
                tails += [len(v)] + sub_heads + sub_tails
            else:
                tails += [len(v)] + list(v)
    return heads + tails
