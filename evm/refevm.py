"""Independent concrete EVM interpreter (Cancun instruction set) used as the reference model.

It imports nothing from halmos.  What it deliberately mirrors of halmos' *documented* abstractions
(each also listed in the evidence `assumptions`):
  * no gas metering: the gas argument of calls is ignored; GAS / GASPRICE / BLOCKHASH / precompiles
    other than identity are "opaque" - using one marks the run so that value-dependent comparison is
    skipped by the caller;
  * memory beyond MAX_MEMORY (2**20) is an out-of-gas halt;
  * addresses of created contracts come from an address oracle supplied by the caller;
  * the top-level message does not move value by itself (the caller decides, transfer_top);
  * nonces, refunds, access lists, SELFDESTRUCT are not modelled (SELFDESTRUCT raises Unsupported).
"""

from __future__ import annotations

from dataclasses import dataclass, field

from .keccak import keccak256

M256 = (1 << 256) - 1
MAX_MEMORY = 1 << 20
MAX_DEPTH = 1024
GAS_SENTINEL = 0x6761735F6F7061717565  # what GAS pushes; see opaque handling


class Halt(Exception):
    def __init__(self, kind):
        super().__init__(kind)
        self.kind = kind


class Unsupported(Exception):
    pass


class StepLimit(Exception):
    pass


@dataclass
class Frame:
    scheme: str
    target: int
    caller: int
    origin: int
    value: int
    data: bytes
    static: bool
    depth: int
    code_addr: int | None = None
    output: bytes = b""
    error: str | None = None  # None | 'revert' | 'halt:<kind>'
    trace: list = field(default_factory=list)
    executed: bool = True  # False for virtual frames (insufficient funds, collision, no code)

    def subframes(self):
        return [t for t in self.trace if isinstance(t, Frame)]

    def brief(self):
        return dict(scheme=self.scheme, target=hex(self.target), caller=hex(self.caller), value=self.value,
                    data=self.data.hex(), static=self.static, output=self.output.hex(), error=self.error,
                    trace=[t.brief() if isinstance(t, Frame) else _brief_ev(t) for t in self.trace])


def _brief_ev(t):
    return tuple(hex(x) if isinstance(x, int) and x > 0xFFFF else (x.hex() if isinstance(x, bytes) else x) for x in t)


class World:
    def __init__(self):
        self.code: dict[int, bytes] = {}
        self.storage: dict[int, dict[int, int]] = {}
        self.transient: dict[int, dict[int, int]] = {}
        self.balance: dict[int, int] = {}
        # value of slots nobody has written yet (symbolic initial storage: the caller supplies the assignment); default 0
        self.initial: dict[tuple[int, int], int] = {}

    def snapshot(self):
        return (dict(self.code), {a: dict(s) for a, s in self.storage.items()},
                {a: dict(s) for a, s in self.transient.items()}, dict(self.balance))

    def restore(self, snap):
        self.code, self.storage, self.transient, self.balance = (
            dict(snap[0]), {a: dict(s) for a, s in snap[1].items()},
            {a: dict(s) for a, s in snap[2].items()}, dict(snap[3]))

    def copy(self):
        w = World()
        w.restore(self.snapshot())
        w.initial = self.initial
        return w

    def bal(self, a):
        return self.balance.get(a, 0)


def s256(x):
    return x - (1 << 256) if x >> 255 else x


def valid_jumpdests(code: bytes) -> set[int]:
    out = set()
    i = 0
    n = len(code)
    while i < n:
        b = code[i]
        if b == 0x5B:
            out.add(i)
        if 0x60 <= b <= 0x7F:
            i += b - 0x5F
        i += 1
    return out


DEFAULT_BLOCK = dict(basefee=0, chainid=31337, coinbase=0, difficulty=0, gaslimit=2**63 - 1, number=1, timestamp=1)


class RefEVM:
    def __init__(self, world: World, block: dict | None = None, addr_oracle=None, cheat=None,
                 cheat_addrs: tuple[int, ...] = (), max_steps: int = 20000, max_stack: int = 1024,
                 quirks: frozenset = frozenset()):
        # quirks: named deviations from the EVM, used only to *diagnose* a mismatch (which known
        # deviation explains it); the judging run always uses the empty set
        self.quirks = frozenset(quirks)
        self.w = world
        self.block = dict(DEFAULT_BLOCK if block is None else block)
        self.addr_oracle = addr_oracle
        self.cheat = cheat
        self.cheat_addrs = set(cheat_addrs)
        self.max_steps = max_steps
        self.max_stack = max_stack
        self.steps = 0
        self.opaque_used: list[str] = []
        self.sender_hook = None  # (evm, frame, to | None, scheme) -> (sender, origin | None) | None   (prank model)
        self.gas_pending = 0
        self._jd_cache: dict[bytes, set[int]] = {}
        self.created: list[int] = []

    # ------------------------------------------------------------------ top level
    def run_tx(self, target, caller, origin, value, data, transfer_top=False, scheme="CALL") -> Frame:
        self.w.transient = {a: {} for a in self.w.transient}
        fr = Frame(scheme=scheme, target=target, caller=caller, origin=origin, value=value, data=bytes(data),
                   static=False, depth=1, code_addr=target)
        snap = self.w.snapshot()
        if transfer_top and value:
            if self.w.bal(caller) < value:
                fr.error = "halt:insufficient"
                fr.executed = False
                return fr
            self.w.balance[caller] = self.w.bal(caller) - value
            self.w.balance[target] = self.w.bal(target) + value
        code = self.w.code.get(target, b"")
        self._exec(fr, code)
        if fr.error is not None:
            self.w.restore(snap)
        if self.gas_pending:
            self.opaque_used.append("GAS")
        return fr

    # ------------------------------------------------------------------ interpreter
    def _jumpdests(self, code):
        jd = self._jd_cache.get(code)
        if jd is None:
            jd = valid_jumpdests(code)
            self._jd_cache[code] = jd
        return jd

    def _exec(self, fr: Frame, code: bytes):
        try:
            out = self._run(fr, code)
            fr.output = out
        except Halt as h:
            if h.kind == "revert":
                fr.error = "revert"
            else:
                fr.error = "halt:" + h.kind
                fr.output = b""

    def _run(self, fr: Frame, code: bytes) -> bytes:
        w = self.w
        stack: list[int] = []
        mem = bytearray()
        pc = 0
        n = len(code)
        jds = None
        retdata = b""
        this = fr.target

        def pop():
            if not stack:
                raise Halt("underflow")
            return stack.pop()

        def push(v):
            if len(stack) >= self.max_stack:
                raise Halt("overflow")
            stack.append(v & M256)

        def touch(off, size):
            if size == 0:
                return
            end = off + size
            if end > MAX_MEMORY:
                raise Halt("oog")
            if end > len(mem):
                mem.extend(b"\0" * (((end + 31) // 32) * 32 - len(mem)))

        def mread(off, size):
            if size == 0:
                return b""
            touch(off, size)
            return bytes(mem[off:off + size])

        hw = [0]  # highest offset written (quirk msize_write_only)

        def mwrite(off, data):
            if not data:
                return
            touch(off, len(data))
            mem[off:off + len(data)] = data
            if off + len(data) > hw[0]:
                hw[0] = off + len(data)

        def padded(src: bytes, off, size):
            if size == 0:
                return b""
            if size > MAX_MEMORY:
                raise Halt("oog")
            chunk = src[off:off + size] if off < len(src) else b""
            return chunk + b"\0" * (size - len(chunk))

        while True:
            self.steps += 1
            if self.steps > self.max_steps:
                raise StepLimit()
            op = code[pc] if pc < n else 0x00
            pc += 1
            # ---- push / dup / swap
            if 0x60 <= op <= 0x7F:
                k = op - 0x5F
                raw = code[pc:pc + k]
                raw = raw + b"\0" * (k - len(raw))
                push(int.from_bytes(raw, "big"))
                pc += k
                continue
            if op == 0x5F:
                push(0)
                continue
            if 0x80 <= op <= 0x8F:
                k = op - 0x7F
                if len(stack) < k:
                    raise Halt("underflow")
                push(stack[-k])
                continue
            if 0x90 <= op <= 0x9F:
                k = op - 0x8F
                if len(stack) < k + 1:
                    raise Halt("underflow")
                stack[-1], stack[-1 - k] = stack[-1 - k], stack[-1]
                continue
            # ---- arithmetic
            if op == 0x00:
                return b""
            if op == 0x01:
                a, b = pop(), pop()
                push(a + b)
            elif op == 0x02:
                a, b = pop(), pop()
                push(a * b)
            elif op == 0x03:
                a, b = pop(), pop()
                push(a - b)
            elif op == 0x04:
                a, b = pop(), pop()
                push(0 if b == 0 else a // b)
            elif op == 0x05:
                a, b = s256(pop()), s256(pop())
                if b == 0:
                    push(0)
                else:
                    q = abs(a) // abs(b)
                    push(q if (a < 0) == (b < 0) else -q)
            elif op == 0x06:
                a, b = pop(), pop()
                push(0 if b == 0 else a % b)
            elif op == 0x07:
                a, b = s256(pop()), s256(pop())
                if b == 0:
                    push(0)
                else:
                    r = abs(a) % abs(b)
                    push(-r if a < 0 else r)
            elif op == 0x08:
                a, b, m = pop(), pop(), pop()
                push(0 if m == 0 else (a + b) % m)
            elif op == 0x09:
                a, b, m = pop(), pop(), pop()
                push(0 if m == 0 else (a * b) % m)
            elif op == 0x0A:
                a, b = pop(), pop()
                push(pow(a, b, 1 << 256))
            elif op == 0x0B:
                k, x = pop(), pop()
                if k < 31:
                    bit = 8 * k + 7
                    if (x >> bit) & 1:
                        x = x | (M256 ^ ((1 << (bit + 1)) - 1))
                    else:
                        x = x & ((1 << (bit + 1)) - 1)
                push(x)
            elif op == 0x10:
                a, b = pop(), pop()
                push(1 if a < b else 0)
            elif op == 0x11:
                a, b = pop(), pop()
                push(1 if a > b else 0)
            elif op == 0x12:
                a, b = s256(pop()), s256(pop())
                push(1 if a < b else 0)
            elif op == 0x13:
                a, b = s256(pop()), s256(pop())
                push(1 if a > b else 0)
            elif op == 0x14:
                a, b = pop(), pop()
                push(1 if a == b else 0)
            elif op == 0x15:
                push(1 if pop() == 0 else 0)
            elif op == 0x16:
                a, b = pop(), pop()
                push(a & b)
            elif op == 0x17:
                a, b = pop(), pop()
                push(a | b)
            elif op == 0x18:
                a, b = pop(), pop()
                push(a ^ b)
            elif op == 0x19:
                push(M256 ^ pop())
            elif op == 0x1A:
                i, x = pop(), pop()
                push((x >> (8 * (31 - i))) & 0xFF if i < 32 else 0)
            elif op == 0x1B:
                sh, x = pop(), pop()
                push(x << sh if sh < 256 else 0)
            elif op == 0x1C:
                sh, x = pop(), pop()
                push(x >> sh if sh < 256 else 0)
            elif op == 0x1D:
                sh, x = pop(), s256(pop())
                push(x >> sh if sh < 256 else (-1 if x < 0 else 0))
            elif op == 0x20:
                off, size = pop(), pop()
                if size and (off > MAX_MEMORY or size > MAX_MEMORY):
                    raise Halt("oog")
                push(int.from_bytes(keccak256(mread(off, size)), "big"))
            # ---- environment
            elif op == 0x30:
                push(this)
            elif op == 0x31:
                push(w.bal(pop() & ((1 << 160) - 1)))
            elif op == 0x32:
                push(fr.origin)
            elif op == 0x33:
                push(fr.caller)
            elif op == 0x34:
                push(fr.value)
            elif op == 0x35:
                off = pop()
                d = fr.data if not fr.scheme.startswith("CREATE") else b""
                push(int.from_bytes(padded(d, off, 32), "big") if off < len(d) else 0)
            elif op == 0x36:
                push(0 if fr.scheme.startswith("CREATE") else len(fr.data))
            elif op == 0x37:
                dst, off, size = pop(), pop(), pop()
                if size:
                    if dst > MAX_MEMORY or size > MAX_MEMORY:
                        raise Halt("oog")
                    d = fr.data if not fr.scheme.startswith("CREATE") else b""
                    mwrite(dst, padded(d, off, size))
            elif op == 0x38:
                push(n)
            elif op == 0x39:
                dst, off, size = pop(), pop(), pop()
                if size:
                    if dst > MAX_MEMORY or size > MAX_MEMORY:
                        raise Halt("oog")
                    mwrite(dst, padded(code, off, size))
            elif op == 0x3A:
                self.opaque_used.append("GASPRICE")
                push(0)
            elif op == 0x3B:
                a = pop() & ((1 << 160) - 1)
                if a in self.cheat_addrs:
                    self.opaque_used.append("EXTCODESIZE(cheat)")
                push(len(w.code.get(a, b"")))
            elif op == 0x3C:
                a, dst, off, size = pop() & ((1 << 160) - 1), pop(), pop(), pop()
                if size:
                    if dst > MAX_MEMORY or size > MAX_MEMORY:
                        raise Halt("oog")
                    mwrite(dst, padded(w.code.get(a, b""), off, size))
            elif op == 0x3D:
                push(len(retdata))
            elif op == 0x3E:
                dst, off, size = pop(), pop(), pop()
                if off + size > len(retdata) and not (size == 0 and "rdc_zero_size_no_oob" in self.quirks):
                    raise Halt("oob")
                if size:
                    if dst > MAX_MEMORY:
                        raise Halt("oog")
                    mwrite(dst, retdata[off:off + size])
            elif op == 0x3F:
                a = pop() & ((1 << 160) - 1)
                if a in self.cheat_addrs:
                    self.opaque_used.append("EXTCODEHASH(cheat)")
                push(int.from_bytes(keccak256(w.code[a]), "big") if a in w.code else 0)
            elif op == 0x40:
                pop()
                self.opaque_used.append("BLOCKHASH")
                push(0)
            elif op == 0x41:
                push(self.block["coinbase"])
            elif op == 0x42:
                push(self.block["timestamp"])
            elif op == 0x43:
                push(self.block["number"])
            elif op == 0x44:
                push(self.block["difficulty"])
            elif op == 0x45:
                push(self.block["gaslimit"])
            elif op == 0x46:
                push(self.block["chainid"])
            elif op == 0x47:
                push(w.bal(this))
            elif op == 0x48:
                push(self.block["basefee"])
            # ---- stack / memory / storage / flow
            elif op == 0x50:
                pop()
            elif op == 0x51:
                off = pop()
                if off > MAX_MEMORY:
                    raise Halt("oog")
                push(int.from_bytes(mread(off, 32), "big"))
            elif op == 0x52:
                off, v = pop(), pop()
                if off > MAX_MEMORY:
                    raise Halt("oog")
                mwrite(off, v.to_bytes(32, "big"))
            elif op == 0x53:
                off, v = pop(), pop()
                if off > MAX_MEMORY:
                    raise Halt("oog")
                mwrite(off, bytes([v & 0xFF]))
            elif op == 0x54:
                slot = pop()
                st_ = w.storage.setdefault(this, {})
                v = st_[slot] if slot in st_ else w.initial.get((this, slot), 0)
                fr.trace.append(("sload", this, slot, v, False))
                push(v)
            elif op == 0x55:
                slot, v = pop(), pop()
                fr.trace.append(("sstore", this, slot, v, False))
                if fr.static:
                    raise Halt("static")
                w.storage.setdefault(this, {})[slot] = v
            elif op == 0x56:
                dst = pop()
                if jds is None:
                    jds = self._jumpdests(code)
                if dst not in jds:
                    raise Halt("badjump")
                pc = dst
            elif op == 0x57:
                dst, c = pop(), pop()
                if c:
                    if jds is None:
                        jds = self._jumpdests(code)
                    if dst not in jds:
                        raise Halt("badjump")
                    pc = dst
            elif op == 0x58:
                push(pc - 1)
            elif op == 0x59:
                push(((hw[0] + 31) // 32) * 32 if "msize_write_only" in self.quirks else len(mem))
            elif op == 0x5A:
                # the value is opaque unless it is only consumed as the (ignored) gas argument of a call
                self.gas_pending += 1
                push(GAS_SENTINEL)
            elif op == 0x5B:
                pass
            elif op == 0x5C:
                slot = pop()
                v = w.transient.setdefault(this, {}).get(slot, 0)
                fr.trace.append(("sload", this, slot, v, True))
                push(v)
            elif op == 0x5D:
                slot, v = pop(), pop()
                fr.trace.append(("sstore", this, slot, v, True))
                if fr.static:
                    raise Halt("static")
                w.transient.setdefault(this, {})[slot] = v
            elif op == 0x5E:
                dst, src, size = pop(), pop(), pop()
                if size:
                    if dst > MAX_MEMORY or src > MAX_MEMORY or size > MAX_MEMORY:
                        raise Halt("oog")
                    mwrite(dst, mread(src, size))
            elif 0xA0 <= op <= 0xA4:
                if fr.static:
                    raise Halt("static")
                off, size = pop(), pop()
                topics = [pop() for _ in range(op - 0xA0)]
                if size and (off > MAX_MEMORY or size > MAX_MEMORY):
                    raise Halt("oog")
                fr.trace.append(("log", this, tuple(topics), mread(off, size)))
            elif op in (0xF1, 0xF2, 0xF4, 0xFA):
                if pop() == GAS_SENTINEL and self.gas_pending:  # gas
                    self.gas_pending -= 1
                to = pop() & ((1 << 160) - 1)
                value = pop() if op in (0xF1, 0xF2) else 0
                aoff, asz, roff, rsz = pop(), pop(), pop(), pop()
                if (asz and (aoff > MAX_MEMORY or asz > MAX_MEMORY)) or (rsz and (roff > MAX_MEMORY or rsz > MAX_MEMORY)):
                    raise Halt("oog")
                if op == 0xF1 and fr.static and value != 0 and "static_value_call_ok" not in self.quirks:
                    raise Halt("static")
                args = mread(aoff, asz)
                touch(roff, rsz)
                ok, retdata = self._call(fr, op, to, value, args)
                k = min(rsz, len(retdata))
                if k:
                    mem[roff:roff + k] = retdata[:k]
                    if roff + k > hw[0]:
                        hw[0] = roff + k
                push(1 if ok else 0)
            elif op in (0xF0, 0xF5):
                if fr.static:
                    raise Halt("static")
                value, off, size = pop(), pop(), pop()
                salt = pop() if op == 0xF5 else None
                if size and (off > MAX_MEMORY or size > MAX_MEMORY):
                    raise Halt("oog")
                init = mread(off, size)
                addr, retdata = self._create(fr, op, value, init, salt)
                push(addr)
            elif op == 0xF3:
                off, size = pop(), pop()
                if size and (off > MAX_MEMORY or size > MAX_MEMORY):
                    raise Halt("oog")
                return mread(off, size)
            elif op == 0xFD:
                off, size = pop(), pop()
                if size and (off > MAX_MEMORY or size > MAX_MEMORY):
                    raise Halt("oog")
                fr.output = mread(off, size)
                raise Halt("revert")
            elif op == 0xFE:
                raise Halt("invalid")
            elif op == 0xFF:
                raise Unsupported("SELFDESTRUCT")
            else:
                raise Halt("undefined")

    # ------------------------------------------------------------------ calls
    def _call(self, fr: Frame, op: int, to: int, value: int, args: bytes):
        w = self.w
        scheme = {0xF1: "CALL", 0xF2: "CALLCODE", 0xF4: "DELEGATECALL", 0xFA: "STATICCALL"}[op]
        this = fr.target
        if op in (0xF1, 0xFA):
            target, caller, val = to, this, value
        elif op == 0xF2:
            target, caller, val = this, this, value
        else:
            target, caller, val = this, fr.caller, fr.value
        origin = fr.origin
        if self.sender_hook is not None:
            r = self.sender_hook(self, fr, to, scheme)
            if r is not None:
                caller = r[0]
                origin = r[1] if r[1] is not None else origin
        sub = Frame(scheme=scheme, target=target, caller=caller, origin=origin, value=val, data=args,
                    static=fr.static or op == 0xFA, depth=fr.depth + 1, code_addr=to)
        if fr.depth + 1 > MAX_DEPTH:
            sub.error = "halt:depth"
            sub.executed = False
            fr.trace.append(sub)
            return False, b""
        if op in (0xF1, 0xF2) and value and w.bal(this) < value:
            sub.error = "halt:insufficient"
            sub.executed = False
            fr.trace.append(sub)
            return False, b""
        # cheat / precompile / plain account
        if to in self.cheat_addrs:
            if self.cheat is None:
                raise Unsupported("cheatcode call without a cheat model")
            ok, out = self.cheat(self, fr, sub, to, args)
            sub.output = out
            sub.error = None if ok else "revert"
            sub.executed = False
            fr.trace.append(sub)
            return ok, out
        if 1 <= to <= 10:
            if to != 4:
                self.opaque_used.append(f"PRECOMPILE{to}")
            if op == 0xF1 and value:
                w.balance[this] = w.bal(this) - value
                w.balance[to] = w.bal(to) + value
            sub.output = args if to == 4 else b""
            sub.executed = False
            fr.trace.append(sub)
            return True, sub.output
        snap = w.snapshot()
        if op == 0xF1 and value:
            w.balance[this] = w.bal(this) - value
            w.balance[to] = w.bal(to) + value
        if to not in w.code:
            sub.executed = False
            fr.trace.append(sub)
            return True, b""
        fr.trace.append(sub)
        self._exec(sub, w.code[to])
        if sub.error is not None:
            w.restore(snap)
            return False, (sub.output if sub.error == "revert" else b"")
        return True, sub.output

    def _create(self, fr: Frame, op: int, value: int, init: bytes, salt):
        w = self.w
        this = fr.target
        scheme = "CREATE" if op == 0xF0 else "CREATE2"
        if self.addr_oracle is None:
            raise Unsupported("no address oracle")
        new_addr = self.addr_oracle(scheme, this, init, salt, len(self.created))
        creator, origin = this, fr.origin
        if self.sender_hook is not None:
            r = self.sender_hook(self, fr, None, scheme)
            if r is not None:
                creator = r[0]
                origin = r[1] if r[1] is not None else origin
        sub = Frame(scheme=scheme, target=new_addr, caller=creator, origin=origin, value=value, data=init,
                    static=False, depth=fr.depth + 1, code_addr=None)
        if value and w.bal(this) < value:
            sub.error = "halt:insufficient"
            sub.executed = False
            fr.trace.append(sub)
            return 0, b""
        self.created.append(new_addr)
        if new_addr in w.code:
            sub.error = "halt:collision"
            sub.executed = False
            fr.trace.append(sub)
            return 0, b""
        if fr.depth + 1 > MAX_DEPTH:
            sub.error = "halt:depth"
            sub.executed = False
            fr.trace.append(sub)
            return 0, b""
        snap = w.snapshot()
        w.code[new_addr] = b""
        w.storage[new_addr] = {}
        w.transient[new_addr] = {}
        if value:
            w.balance[this] = w.bal(this) - value
            w.balance[new_addr] = w.bal(new_addr) + value
        fr.trace.append(sub)
        self._exec(sub, init)
        if sub.error is not None:
            w.restore(snap)
            return 0, (sub.output if sub.error == "revert" else b"")
        w.code[new_addr] = sub.output
        return new_addr, b""
