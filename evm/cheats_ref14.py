"""Reference semantics of prank / state-setting / fresh-symbol cheatcodes, written from the forge-std and halmos-cheatcodes
signatures (selectors computed from the signature strings).  Independent of halmos.

Prank rules (Foundry): vm.prank(a[,o]) makes the next CALL / STATICCALL / CREATE issued by the frame that called the
cheatcode see msg.sender = a (and tx.origin = o for that call and everything below it); vm.startPrank does so for
every such call until vm.stopPrank; calls to the cheatcode addresses neither see nor consume a prank; frames below
the pranked call are not pranked themselves; a new transaction starts without a prank.
"""

from __future__ import annotations

from . import abi, cheats_ref
from .cheats_ref import CheatStop, _sel
from .keccak import keccak256

VM = cheats_ref.VM
SVM = 0xF3993A62377BCD56AE39D773740A5390411E8BC9
MASK160 = (1 << 160) - 1

S = {name: _sel(sig) for name, sig in dict(
    prank="prank(address)", prank2="prank(address,address)", startPrank="startPrank(address)",
    startPrank2="startPrank(address,address)", stopPrank="stopPrank()", deal="deal(address,uint256)",
    store="store(address,bytes32,bytes32)", load="load(address,bytes32)", etch="etch(address,bytes)", warp="warp(uint256)",
    roll="roll(uint256)", fee="fee(uint256)", chainId="chainId(uint256)", coinbase="coinbase(address)",
    difficulty="difficulty(uint256)", assume="assume(bool)",
).items()}

# fresh-symbol cheatcodes: name -> (signature, kind, parameter layout)
FRESH = {
    "createUint": ("createUint(uint256,string)", "uintN"), "createUint256": ("createUint256(string)", "uint256"),
    "createInt": ("createInt(uint256,string)", "intN"), "createInt256": ("createInt256(string)", "int256"),
    "createBytes": ("createBytes(uint256,string)", "bytes"), "createString": ("createString(uint256,string)", "bytes"),
    "createBytes32": ("createBytes32(string)", "bytes32"), "createBytes4": ("createBytes4(string)", "bytes4"),
    "createAddress": ("createAddress(string)", "address"), "createBool": ("createBool(string)", "bool"),
    "randomUint": ("randomUint()", "uint256"), "randomUintBits": ("randomUint(uint256)", "uintN"),
    "randomUintRange": ("randomUint(uint256,uint256)", "range"), "randomAddress": ("randomAddress()", "address"),
    "randomBool": ("randomBool()", "bool"), "randomBytes": ("randomBytes(uint256)", "bytes"),
    "randomBytes4": ("randomBytes4()", "bytes4"), "randomInt": ("randomInt()", "int256"),
    "randomIntBits": ("randomInt(uint256)", "intN"),
}
FRESH_BY_SEL = {_sel(sig): (name, sig, kind) for name, (sig, kind) in FRESH.items()}


def check_fresh(kind, args: bytes, out: bytes):
    """is `out` a well-formed return value of the requested width / encoding / range?  -> None | reason"""
    if kind in ("uint256", "int256", "bytes32"):
        return None if len(out) == 32 else f"{len(out)} bytes returned"
    if len(out) < 32 and kind != "bytes":
        return f"{len(out)} bytes returned"
    w = int.from_bytes(out[:32], "big")
    if kind == "uintN":
        bits = int.from_bytes(args[4:36], "big")
        return None if (len(out) == 32 and w < (1 << bits)) else f"value {w:#x} does not fit {bits} bits"
    if kind == "intN":
        bits = int.from_bytes(args[4:36], "big")
        if bits == 256:
            return None
        s = w - (1 << 256) if w >> 255 else w
        return None if -(1 << (bits - 1)) <= s < (1 << (bits - 1)) else f"value {w:#x} is not a sign-extended int{bits}"
    if kind == "address":
        return None if w <= MASK160 else f"value {w:#x} is not an address"
    if kind == "bool":
        return None if w in (0, 1) else f"value {w:#x} is not a bool"
    if kind == "bytes4":
        return None if (w & ((1 << 224) - 1)) == 0 else f"bytes4 value {w:#x} is not left-aligned with zero padding"
    if kind == "range":
        lo, hi = int.from_bytes(args[4:36], "big"), int.from_bytes(args[36:68], "big")
        return None if lo <= w <= hi else f"value {w:#x} outside [{lo:#x}, {hi:#x}]"
    if kind == "bytes":
        n = int.from_bytes(args[4:36], "big")
        try:
            (b,) = abi.decode(["bytes"], out, 0)
        except ValueError as e:
            return f"not an ABI-encoded bytes value: {e}"
        if len(b) != n:
            return f"{len(b)} bytes returned, {n} requested"
        # (halmos returns the tail without padding it to a multiple of 32 bytes; every ABI decoder accepts that)
        if len(out) not in (64 + n, 64 + 32 * ((n + 31) // 32)):
            return f"return data of {len(out)} bytes for a {n}-byte value"
        return None
    return None


class Model:
    """state of the cheatcode world next to one RefEVM run"""

    def __init__(self, fresh_outputs=None):
        self.pranks = {}  # frame id -> dict(sender, origin, keep)
        self.fresh_outputs = list(fresh_outputs) if fresh_outputs is not None else None
        self.fresh_seen = 0
        self.fresh_problems = []

    # called by RefEVM (hook) when frame `fr` is about to issue a call / create to `to`
    def resolve_sender(self, evm, fr, to, scheme):
        p = self.pranks.get(id(fr))
        if p is None or to in (VM, SVM) or scheme in ("DELEGATECALL", "CALLCODE"):
            return None
        if not p["keep"]:
            del self.pranks[id(fr)]
        return p["sender"], p["origin"]

    def handler(self, evm, fr, sub, to, args: bytes):
        sel = bytes(args[:4])
        w = lambda i: int.from_bytes(args[4 + 32 * i: 36 + 32 * i].ljust(32, b"\0"), "big")  # noqa: E731
        if to == SVM or sel in FRESH_BY_SEL:
            ent = FRESH_BY_SEL.get(sel)
            if ent is None:
                raise CheatStop("unknown-cheatcode", sel.hex())
            if self.fresh_outputs is None:
                raise CheatStop("needs-model")
            if self.fresh_seen >= len(self.fresh_outputs):
                raise CheatStop("fresh-output-missing")
            out = self.fresh_outputs[self.fresh_seen]
            self.fresh_seen += 1
            why = check_fresh(ent[2], args, out)
            if why:
                self.fresh_problems.append(f"{ent[1]}: {why}")
            return True, out
        if sel == S["assume"]:
            if w(0) == 0:
                raise CheatStop("assume-rejected")
            return True, b""
        if sel in (S["prank"], S["prank2"], S["startPrank"], S["startPrank2"]):
            if id(fr) in self.pranks:
                raise CheatStop("prank-overlap")
            two = sel in (S["prank2"], S["startPrank2"])
            self.pranks[id(fr)] = dict(sender=w(0) & MASK160, origin=(w(1) & MASK160) if two else None,
                                       keep=sel in (S["startPrank"], S["startPrank2"]))
            return True, b""
        if sel == S["stopPrank"]:
            self.pranks.pop(id(fr), None)
            return True, b""
        world = evm.w
        if sel == S["deal"]:
            world.balance[w(0) & MASK160] = w(1)
            return True, b""
        if sel == S["store"]:
            a = w(0) & MASK160
            if a not in world.code:
                raise CheatStop("store-nonexistent")
            world.storage.setdefault(a, {})[w(1)] = w(2)
            fr.trace.append(("sstore", a, w(1), w(2), False))  # halmos logs the access in the calling frame
            return True, b""
        if sel == S["load"]:
            a = w(0) & MASK160
            v = world.storage.get(a, {}).get(w(1), 0)
            if a in world.code:
                fr.trace.append(("sload", a, w(1), v, False))
            return True, v.to_bytes(32, "big")
        if sel == S["etch"]:
            a = w(0) & MASK160
            _, code = abi.decode(["address", "bytes"], args, 4)
            world.code[a] = code
            world.storage.setdefault(a, {})
            world.transient.setdefault(a, {})
            return True, b""
        for name, key in (("warp", "timestamp"), ("roll", "number"), ("fee", "basefee"), ("chainId", "chainid"),
                          ("difficulty", "difficulty")):
            if sel == S[name]:
                evm.block[key] = w(0)
                return True, b""
        if sel == S["coinbase"]:
            evm.block["coinbase"] = w(0) & MASK160
            return True, b""
        raise CheatStop("unknown-cheatcode", sel.hex())
