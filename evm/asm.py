"""Tiny EVM assembler (labels resolved with PUSH2) - independent of halmos."""

from __future__ import annotations

OPS = {
    "STOP": 0x00, "ADD": 0x01, "MUL": 0x02, "SUB": 0x03, "DIV": 0x04, "SDIV": 0x05, "MOD": 0x06,
    "SMOD": 0x07, "ADDMOD": 0x08, "MULMOD": 0x09, "EXP": 0x0A, "SIGNEXTEND": 0x0B,
    "LT": 0x10, "GT": 0x11, "SLT": 0x12, "SGT": 0x13, "EQ": 0x14, "ISZERO": 0x15, "AND": 0x16,
    "OR": 0x17, "XOR": 0x18, "NOT": 0x19, "BYTE": 0x1A, "SHL": 0x1B, "SHR": 0x1C, "SAR": 0x1D,
    "SHA3": 0x20,
    "ADDRESS": 0x30, "BALANCE": 0x31, "ORIGIN": 0x32, "CALLER": 0x33, "CALLVALUE": 0x34,
    "CALLDATALOAD": 0x35, "CALLDATASIZE": 0x36, "CALLDATACOPY": 0x37, "CODESIZE": 0x38,
    "CODECOPY": 0x39, "GASPRICE": 0x3A, "EXTCODESIZE": 0x3B, "EXTCODECOPY": 0x3C,
    "RETURNDATASIZE": 0x3D, "RETURNDATACOPY": 0x3E, "EXTCODEHASH": 0x3F,
    "BLOCKHASH": 0x40, "COINBASE": 0x41, "TIMESTAMP": 0x42, "NUMBER": 0x43, "DIFFICULTY": 0x44,
    "GASLIMIT": 0x45, "CHAINID": 0x46, "SELFBALANCE": 0x47, "BASEFEE": 0x48,
    "POP": 0x50, "MLOAD": 0x51, "MSTORE": 0x52, "MSTORE8": 0x53, "SLOAD": 0x54, "SSTORE": 0x55,
    "JUMP": 0x56, "JUMPI": 0x57, "PC": 0x58, "MSIZE": 0x59, "GAS": 0x5A, "JUMPDEST": 0x5B,
    "TLOAD": 0x5C, "TSTORE": 0x5D, "MCOPY": 0x5E, "PUSH0": 0x5F,
    "LOG0": 0xA0, "LOG1": 0xA1, "LOG2": 0xA2, "LOG3": 0xA3, "LOG4": 0xA4,
    "CREATE": 0xF0, "CALL": 0xF1, "CALLCODE": 0xF2, "RETURN": 0xF3, "DELEGATECALL": 0xF4,
    "CREATE2": 0xF5, "STATICCALL": 0xFA, "REVERT": 0xFD, "INVALID": 0xFE, "SELFDESTRUCT": 0xFF,
}
for _i in range(1, 33):
    OPS[f"PUSH{_i}"] = 0x5F + _i
for _i in range(1, 17):
    OPS[f"DUP{_i}"] = 0x7F + _i
    OPS[f"SWAP{_i}"] = 0x8F + _i

NAMES = {v: k for k, v in OPS.items()}

# (pops, pushes) for stack tracking by generators
STACK = {
    "STOP": (0, 0), "ADD": (2, 1), "MUL": (2, 1), "SUB": (2, 1), "DIV": (2, 1), "SDIV": (2, 1), "MOD": (2, 1),
    "SMOD": (2, 1), "ADDMOD": (3, 1), "MULMOD": (3, 1), "EXP": (2, 1), "SIGNEXTEND": (2, 1),
    "LT": (2, 1), "GT": (2, 1), "SLT": (2, 1), "SGT": (2, 1), "EQ": (2, 1), "ISZERO": (1, 1), "AND": (2, 1),
    "OR": (2, 1), "XOR": (2, 1), "NOT": (1, 1), "BYTE": (2, 1), "SHL": (2, 1), "SHR": (2, 1), "SAR": (2, 1),
}


class Asm:
    def __init__(self):
        self.items: list = []  # ('op', byte) | ('push', int, nbytes) | ('label', name) | ('ref', name) | ('raw', bytes)
        self._n = 0

    def fresh(self, prefix="L"):
        self._n += 1
        return f"{prefix}{self._n}"

    def op(self, *names):
        for n in names:
            self.items.append(("op", OPS[n]))
        return self

    def push(self, v: int, width: int | None = None):
        v = int(v)
        assert 0 <= v < (1 << 256), v
        if width is None:
            if v == 0:
                self.items.append(("op", OPS["PUSH0"]))
                return self
            width = (v.bit_length() + 7) // 8
        self.items.append(("push", v, width))
        return self

    def push_bytes(self, b: bytes):
        assert 1 <= len(b) <= 32
        self.items.append(("push", int.from_bytes(b, "big"), len(b)))
        return self

    def label(self, name):
        self.items.append(("label", name))
        self.items.append(("op", OPS["JUMPDEST"]))
        return self

    def mark(self, name):
        """a position label without a JUMPDEST (for data offsets)"""
        self.items.append(("label", name))
        return self

    def ref(self, name):
        self.items.append(("ref", name))
        return self

    def jump(self, name):
        return self.ref(name).op("JUMP")

    def jumpi(self, name):
        return self.ref(name).op("JUMPI")

    def raw(self, b: bytes):
        self.items.append(("raw", bytes(b)))
        return self

    def extend(self, other: "Asm"):
        self.items.extend(other.items)
        return self

    def assemble(self) -> bytes:
        # pass 1: offsets
        pos = 0
        labels = {}
        for it in self.items:
            k = it[0]
            if k == "op":
                pos += 1
            elif k == "push":
                pos += 1 + it[2]
            elif k == "label":
                labels[it[1]] = pos
            elif k == "ref":
                pos += 3
            elif k == "raw":
                pos += len(it[1])
        out = bytearray()
        for it in self.items:
            k = it[0]
            if k == "op":
                out.append(it[1])
            elif k == "push":
                out.append(0x5F + it[2])
                out += it[1].to_bytes(it[2], "big")
            elif k == "ref":
                out.append(0x61)
                out += labels[it[1]].to_bytes(2, "big")
            elif k == "raw":
                out += it[1]
        self.labels = labels
        return bytes(out)


def disasm(code: bytes) -> str:
    out = []
    i = 0
    while i < len(code):
        b = code[i]
        n = NAMES.get(b, f"0x{b:02x}")
        if 0x60 <= b <= 0x7F:
            w = b - 0x5F
            out.append(f"{i:04x} {n} 0x{code[i + 1:i + 1 + w].hex()}")
            i += 1 + w
        else:
            out.append(f"{i:04x} {n}")
            i += 1
    return "\n".join(out)


def initcode_for(runtime: bytes, prologue: Asm | None = None) -> bytes:
    """creation code that (optionally runs a prologue and then) returns `runtime`"""
    a = Asm()
    if prologue is not None:
        a.extend(prologue)
    a.push(len(runtime)).ref("rt").push(0).op("CODECOPY")
    a.push(len(runtime)).push(0).op("RETURN")
    a.mark("rt").raw(runtime)
    return a.assemble()
