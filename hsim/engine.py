"""engine-sim: drive halmos' SEVM on a generated world under seeded faults, and judge the reported
paths against the independent reference EVM.

Faults owned by the simulator here (N1, N6, N7 of DESIGN.md):
  branch_unknown  any branching-solver query may be answered `unknown`
  uid_stream      uuid4-derived symbol suffixes come from the run's choice stream
  gc_now          gc.collect() between reported paths
"""

from __future__ import annotations

import gc
import re
from dataclasses import dataclass, field

import z3

from evm.keccak import keccak256
from evm.refevm import Frame, RefEVM, StepLimit, Unsupported, World

RLIMIT = 1_000_000


# ======================================================================================
# world description
# ======================================================================================


@dataclass
class EWorld:
    accounts: dict  # addr -> runtime bytes
    target: int
    calldata: list  # ('con', bytes) | ('sym', name, nbytes)
    caller: int | None = None  # None -> symbolic
    origin: int | None = None
    value: int | None = 0
    balances: dict = field(default_factory=dict)  # addr -> int | None (symbolic)
    options: dict = field(default_factory=dict)
    block: dict | None = None
    symbolic_storage: tuple = ()  # accounts whose initial storage is symbolic (svm.enableSymbolicStorage)

    def describe(self):
        return dict(accounts={hex(a): c.hex() for a, c in self.accounts.items()}, target=hex(self.target),
                    calldata=[(c[0], c[1].hex() if c[0] == "con" else c[1], *c[2:]) for c in self.calldata],
                    caller=self.caller, origin=self.origin, value=self.value,
                    balances={hex(a): v for a, v in self.balances.items()}, options=self.options)


class Inputs:
    """the symbolic inputs of a world as z3 constants, and conversion of an assignment to a concrete message"""

    def __init__(self, w: EWorld):
        self.w = w
        self.vars: dict[str, z3.BitVecRef] = {}
        for c in w.calldata:
            if c[0] == "sym":
                self.vars[c[1]] = z3.BitVec(c[1], 8 * c[2])
        if w.caller is None:
            self.vars["in_caller"] = z3.BitVec("in_caller", 160)
        if w.origin is None:
            self.vars["in_origin"] = z3.BitVec("in_origin", 160)
        if w.value is None:
            self.vars["in_value"] = z3.BitVec("in_value", 256)
        for a, v in w.balances.items():
            if v is None:
                self.vars[f"in_bal_{a:x}"] = z3.BitVec(f"in_bal_{a:x}", 256)

    def concrete(self, sigma: dict):
        w = self.w
        data = b""
        for c in w.calldata:
            if c[0] == "con":
                data += c[1]
            else:
                data += (sigma[c[1]] & ((1 << (8 * c[2])) - 1)).to_bytes(c[2], "big")
        caller = w.caller if w.caller is not None else sigma["in_caller"]
        origin = w.origin if w.origin is not None else sigma["in_origin"]
        value = w.value if w.value is not None else sigma["in_value"]
        bal = {a: (v if v is not None else sigma[f"in_bal_{a:x}"]) for a, v in w.balances.items()}
        return dict(data=data, caller=caller, origin=origin, value=value, balances=bal)


# ======================================================================================
# seams: branching solver, uid stream, gc
# ======================================================================================


class EngineSeams:
    def __init__(self, ch, unknown_rate=0.0, uid_mode="random", gc_rate=0.0, record_pruned=True, patch_uid=True):
        self.patch_uid = patch_uid
        self.ch = ch
        self.unknown_rate = unknown_rate
        self.uid_mode = uid_mode
        self.gc_rate = gc_rate
        self.record_pruned = record_pruned
        self.faults: dict[str, int] = {}
        self.n_queries = 0
        self.pruned: list = []  # (conditions list, cond)
        self.uid_counter = 0
        self._undo = []
        self.active = False

    def _fault(self, k):
        self.faults[k] = self.faults.get(k, 0) + 1

    def install(self):
        import uuid

        import halmos.sevm as sevm

        seam = self
        orig_check = z3.Solver.check

        def check(self_solver, *assumptions):
            if not seam.active:
                return orig_check(self_solver, *assumptions)
            seam.n_queries += 1
            if seam.unknown_rate and seam.ch.chance(seam.unknown_rate, "branch_unknown"):
                seam._fault("branch_unknown")
                return z3.unknown
            return orig_check(self_solver, *assumptions)

        z3.Solver.check = check
        self._undo.append((z3.Solver, "check", orig_check))

        orig_exec_check = sevm.Exec.check

        def exec_check(ex, cond):
            r = orig_exec_check(ex, cond)
            if seam.active and seam.record_pruned and r == z3.unsat and len(seam.pruned) < 400:
                seam.pruned.append((list(ex.path.conditions), cond))
            return r

        sevm.Exec.check = exec_check
        self._undo.append((sevm.Exec, "check", orig_exec_check))

        if not self.patch_uid:
            self.active = True
            return self
        orig_uuid4 = uuid.uuid4

        class _U:
            def __init__(self, h):
                self.hex = h

        def uuid4():
            if not seam.active:
                return orig_uuid4()
            seam.uid_counter += 1
            if seam.uid_mode == "sequential":
                return _U(f"{seam.uid_counter:07x}" + "0" * 25)
            if seam.uid_mode == "repeat":
                seam._fault("uid_repeat")
                return _U("abcdef0" + "0" * 25)
            v = seam.ch.pick(1 << 28, "uid")
            return _U(f"{v:07x}" + "0" * 25)

        uuid.uuid4 = uuid4
        self._undo.append((uuid, "uuid4", orig_uuid4))
        self.active = True
        return self

    def maybe_gc(self):
        if self.gc_rate and self.ch.chance(self.gc_rate, "gc_now"):
            self._fault("gc_now")
            gc.collect()

    def remove(self):
        self.active = False
        for obj, name, val in reversed(self._undo):
            setattr(obj, name, val)
        self._undo.clear()


# ======================================================================================
# running halmos
# ======================================================================================


@dataclass
class PathReport:
    index: int
    ex: object
    conditions: list
    stuck: bool
    error_kind: str | None  # None | 'revert' | 'halt:<k>' | 'fail-cheat' | 'stuck:<Type>'
    context: object


ERR_KINDS = {
    "Revert": "revert", "InvalidOpcode": "halt:invalid", "StackUnderflowError": "halt:underflow",
    "StackOverflowError": "halt:overflow", "OutOfGasError": "halt:oog", "InsufficientFunds": "halt:insufficient",
    "InvalidJumpDestError": "halt:badjump", "MessageDepthLimitError": "halt:depth",
    "WriteInStaticContext": "halt:static", "OutOfBoundsRead": "halt:oob", "AddressCollision": "halt:collision",
    "FailCheatcode": "fail-cheat", "InvalidParameter": "halt:invalidparam", "InvalidContractPrefix": "halt:prefix",
}


def error_kind(err) -> str | None:
    if err is None:
        return None
    n = type(err).__name__
    if n in ERR_KINDS:
        return ERR_KINDS[n]
    return "stuck:" + n


def make_config(options: dict):
    from halmos.config import ConfigSource, default_config

    base = dict(solver_timeout_branching=0, no_status=True, loop=2, depth=4000, width=0, storage_layout="solidity",
                symbolic_jump=False, debug=False, verbose=0)
    base.update(options)
    return default_config().with_overrides(ConfigSource.command_line, **base)


def build_exec(w: EWorld, inp: Inputs, sevm, solver, setup=None):
    from halmos.bytevec import ByteVec
    from halmos.contract import Contract
    from halmos.sevm import EMPTY_BALANCE, CallContext, Message, Path
    from halmos.utils import EVM, con, con_addr
    import halmos.__main__ as hmain

    cd = ByteVec()
    for c in w.calldata:
        cd.append(c[1] if c[0] == "con" else inp.vars[c[1]])
    caller = con_addr(w.caller) if w.caller is not None else inp.vars["in_caller"]
    origin = con_addr(w.origin) if w.origin is not None else inp.vars["in_origin"]
    value = con(w.value) if w.value is not None else inp.vars["in_value"]
    target = con_addr(w.target)
    code = {}
    storage = {}
    transient = {}
    for a, c in w.accounts.items():
        aa = con_addr(a)
        code[aa] = Contract(c)
        storage[aa] = sevm.mk_storagedata()
        if a in w.symbolic_storage:
            storage[aa].symbolic = True
        transient[aa] = sevm.mk_storagedata()
    block = hmain.mk_block()
    if w.block:
        for k, v in w.block.items():
            setattr(block, k, con_addr(v) if k == "coinbase" else con(v))
    msg = Message(target=target, caller=caller, origin=origin, value=value, data=cd, call_scheme=EVM.CALL)
    ex = sevm.mk_exec(code=code, storage=storage, transient_storage=transient, balance=EMPTY_BALANCE, block=block,
                      context=CallContext(message=msg), pgm=code[target], path=Path(solver))
    for a, v in w.balances.items():
        ex.balance_update(con_addr(a), con(v) if v is not None else inp.vars[f"in_bal_{a:x}"])
    if setup is not None:
        setup(ex)
    return ex


class LogCapture:
    """collects halmos warnings without touching its logger configuration permanently"""

    def __init__(self, fresh=True):
        import logging

        self.fresh = fresh
        self.records: list[str] = []
        outer = self

        class H(logging.Handler):
            def emit(self, record):
                outer.records.append(record.getMessage())

        self.h = H()
        self.h.setLevel(logging.DEBUG)

    def __enter__(self):
        import logging

        for n in ("halmos", "halmos.unique"):
            logging.getLogger(n).addHandler(self.h)
        if self.fresh:
            # every simulated run stands for a fresh halmos process: forget the process-global
            # "already printed" set of the de-duplicating logger (it is a history dimension judged by C10)
            for flt in logging.getLogger("halmos.unique").filters:
                if hasattr(flt, "records"):
                    flt.records.clear()
        return self

    def __exit__(self, *a):
        import logging

        for n in ("halmos", "halmos.unique"):
            logging.getLogger(n).removeHandler(self.h)
        return False


def run_sevm(w: EWorld, seams: EngineSeams, max_paths=64, setup=None):
    """returns (inputs, sevm, [PathReport], info)"""
    import halmos.__main__ as hmain
    from halmos.calldata import FunctionInfo
    from halmos.sevm import SEVM

    from halmos.mapper import BuildOut

    if BuildOut()._build_out_map is None:
        BuildOut().set_build_out({})  # as halmos' own entry points do before any execution
    args = make_config(w.options)
    sevm = SEVM(args, FunctionInfo("T", "main", "main()", "00000000"))
    solver = hmain.mk_solver(args)
    inp = Inputs(w)
    ex0 = build_exec(w, inp, sevm, solver, setup)
    reports = []
    truncated = False
    with LogCapture() as lc:
        gen = sevm.run(ex0)
        for i, ex in enumerate(gen):
            ctx = ex.context
            ek = error_kind(ctx.output.error)
            stuck = ctx.is_stuck()
            if stuck and not (ek or "").startswith("stuck"):
                ek = "stuck:" + (type(ctx.get_stuck_reason()).__name__ if ctx.get_stuck_reason() else "nodata")
            reports.append(PathReport(i, ex, list(ex.path.conditions), stuck, ek, ctx))
            seams.maybe_gc()
            if len(reports) >= max_paths:
                truncated = True
                gen.close()
                break
    info = dict(bounded_loops=len(sevm.logs.bounded_loops), warnings=lc.records, truncated=truncated)
    return inp, sevm, reports, info, solver


# ======================================================================================
# pathval: does sigma satisfy path p, and what does p denote under sigma
# ======================================================================================

_F_EVM = re.compile(r"^f_evm_(bvmul|bvudiv|bvurem|bvsdiv|bvsrem|exp)_(\d+)$")
_F_SHA3 = re.compile(r"^f_sha3_(\d+)$")
OPAQUE_PREFIXES = ("f_gas", "f_blockhash", "f_gasprice", "f_ecrecover", "f_sha256", "f_ripemd160", "f_modexp",
                   "f_ecadd", "f_ecmul", "f_ecpairing", "f_blake2f", "f_point_evaluation", "codeslice_",
                   "call_exit_code")


def collect_apps(terms):
    """applications of f_evm_* / f_sha3_N and names of opaque symbols occurring in the terms"""
    seen = set()
    evm_apps, sha_apps, opaque = [], [], set()
    consts = {}
    stack = list(terms)
    while stack:
        t = stack.pop()
        tid = t.get_id()
        if tid in seen:
            continue
        seen.add(tid)
        if z3.is_app(t):
            d = t.decl()
            if d.kind() == z3.Z3_OP_UNINTERPRETED:
                name = d.name()
                if t.num_args() > 0:
                    if _F_EVM.match(name):
                        evm_apps.append(t)
                    elif _F_SHA3.match(name):
                        sha_apps.append(t)
                    elif name.startswith(OPAQUE_PREFIXES):
                        opaque.add(name)
                else:
                    consts[name] = t
                    if name.startswith(OPAQUE_PREFIXES):
                        opaque.add(name)
            stack.extend(t.children())
    return evm_apps, sha_apps, opaque, consts


def exact_def(app):
    m = _F_EVM.match(app.decl().name())
    op, n = m.group(1), int(m.group(2))
    x, y = app.arg(0), app.arg(1)
    zero = z3.BitVecVal(0, n)
    if op == "bvmul":
        return x * y
    if op == "bvudiv":
        return z3.If(y == zero, zero, z3.UDiv(x, y))
    if op == "bvurem":
        return z3.If(y == zero, zero, z3.URem(x, y))
    if op == "bvsdiv":
        return z3.If(y == zero, zero, x / y)
    if op == "bvsrem":
        return z3.If(y == zero, zero, z3.SRem(x, y))
    return None  # exp: point-wise


def _exact_value(name, args):
    """concrete value of an abstraction application whose arguments are all concrete"""
    m = _F_EVM.match(name)
    if m:
        op, n = m.group(1), int(m.group(2))
        x, y = args
        mask = (1 << n) - 1

        def sgn(v):
            return v - (1 << n) if v >> (n - 1) else v

        if op == "bvmul":
            return (x * y) & mask
        if op == "exp":
            return pow(x, y, 1 << n)
        if y == 0:
            return 0
        if op == "bvudiv":
            return x // y
        if op == "bvurem":
            return x % y
        a, b = sgn(x), sgn(y)
        if op == "bvsdiv":
            q = abs(a) // abs(b)
            return (q if (a < 0) == (b < 0) else -q) & mask
        r = abs(a) % abs(b)
        return (-r if a < 0 else r) & mask
    return None


class ConcreteModel:
    """evaluation of halmos terms under a full assignment of the symbolic inputs, with the standard
    interpretation of keccak (f_sha3_N) and of the arithmetic abstractions (f_evm_*), by rewriting -
    no solver involved.  Duck-types the part of z3.ModelRef the judges use (eval)."""

    BAL0 = None

    def __init__(self, subst):
        self.subst = list(subst)
        if ConcreteModel.BAL0 is None:
            a = z3.Array("balance_00", z3.BitVecSort(160), z3.BitVecSort(256))
            ConcreteModel.BAL0 = (a, z3.K(z3.BitVecSort(160), z3.BitVecVal(0, 256)))
        self.subst.append(ConcreteModel.BAL0)
        self.cache = {}

    def reduce(self, t, rounds=12):
        key = t.get_id()
        r = self.cache.get(key)
        if r is not None:
            return r[1]
        r = z3.simplify(z3.substitute(t, *self.subst))
        for _ in range(rounds):
            if z3.is_bv_value(r) or z3.is_true(r) or z3.is_false(r):
                break
            evm_apps, sha_apps, _, _ = collect_apps([r])
            reps = []
            for app in sha_apps:
                arg = app.arg(0)
                if z3.is_bv_value(arg):
                    h = int.from_bytes(keccak256(arg.as_long().to_bytes(arg.size() // 8, "big")), "big")
                    reps.append((app, z3.BitVecVal(h, 256)))
            for app in evm_apps:
                if all(z3.is_bv_value(app.arg(i)) for i in range(app.num_args())):
                    v = _exact_value(app.decl().name(), [app.arg(i).as_long() for i in range(app.num_args())])
                    if v is not None:
                        reps.append((app, z3.BitVecVal(v, app.size())))
            e0 = None
            if not reps:
                # the hash of the empty string is a 0-ary constant
                _, _, _, consts = collect_apps([r])
                e0 = consts.get("f_sha3_0")
                if e0 is None:
                    break
                reps.append((e0, z3.BitVecVal(int.from_bytes(keccak256(b""), "big"), 256)))
            r = z3.simplify(z3.substitute(r, *reps))
        self.cache[key] = (t, r)  # keep t alive so that its id is not recycled
        return r

    def eval(self, t, model_completion=True):
        r = self.reduce(t)
        if model_completion and not (z3.is_bv_value(r) or z3.is_true(r) or z3.is_false(r)):
            # symbols the inputs do not determine (opaque values): complete with zeros, like a z3 model would
            _, _, _, consts = collect_apps([r])
            reps = []
            for c in consts.values():
                if z3.is_bv(c):
                    reps.append((c, z3.BitVecVal(0, c.size())))
                elif z3.is_bool(c):
                    reps.append((c, z3.BoolVal(False)))
                elif z3.is_array(c) and z3.is_bv_sort(c.sort().range()):
                    reps.append((c, z3.K(c.sort().domain(), z3.BitVecVal(0, c.sort().range().size()))))
            if reps:
                r = z3.simplify(z3.substitute(r, *reps))
        return r


class PathVal:
    """one path's conditions under the standard interpretation: concrete evaluation first
    (ConcreteModel), a fresh rlimit-bounded solver otherwise"""

    def __init__(self, conditions, extra_terms=(), rlimit=RLIMIT):
        self.rlimit = rlimit
        self.conditions = list(conditions)
        self.extra_terms = list(extra_terms)
        evm_apps, sha_apps, opaque, consts = collect_apps(self.conditions + self.extra_terms)
        self.sha_apps = sha_apps
        self.exp_apps = []
        self.opaque = opaque
        self.consts = consts
        self.defs = []
        # arithmetic abstractions are refined point-wise (a lemma f(x0,y0)=exact per model), never by
        # their full definition: bit-blasting 256/512-bit division is what makes such queries slow
        self.exp_apps = list(evm_apps)
        e = consts.get("f_sha3_0")
        if e is not None:
            self.defs.append(e == z3.BitVecVal(int.from_bytes(keccak256(b""), "big"), 256))
        b0 = consts.get("balance_00")
        if b0 is not None:
            self.defs.append(b0 == z3.K(z3.BitVecSort(160), z3.BitVecVal(0, 256)))

    def member(self, subst):
        """-> ('sat', ConcreteModel) | ('unsat', None) | ('undecided', None) by rewriting only"""
        cm = ConcreteModel(subst)
        undecided = False
        for c in self.conditions:
            r = cm.reduce(c)
            if z3.is_false(r):
                return "unsat", None
            if not z3.is_true(r):
                undecided = True
        if undecided:
            return "undecided", None
        return "sat", cm

    def solve(self, sigma_eqs=(), max_rounds=10):
        """-> ('sat', model) | ('unsat', None) | ('unknown', None); keccak / exp fixed point"""
        if sigma_eqs:
            st, cm = self.member([(v, z3.BitVecVal(val, v.size())) for v, val in sigma_eqs])
            if st != "undecided":
                return st, cm
        s = z3.Solver()
        s.set(rlimit=self.rlimit)
        for c in self.conditions:
            s.add(c)
        for d in self.defs:
            s.add(d)
        for v, val in sigma_eqs:
            s.add(v == z3.BitVecVal(val, v.size()))
        for _ in range(max_rounds):
            r = s.check()
            if r == z3.unsat:
                return "unsat", None
            if r != z3.sat:
                return "unknown", None
            m = s.model()
            changed = False
            for app in self.sha_apps:
                arg = m.eval(app.arg(0), model_completion=True)
                if not z3.is_bv_value(arg):
                    return "unknown", None
                nbytes = arg.size() // 8
                h = int.from_bytes(keccak256(arg.as_long().to_bytes(nbytes, "big")), "big")
                cur = m.eval(app, model_completion=True)
                if not (z3.is_bv_value(cur) and cur.as_long() == h):
                    s.add(app.decl()(arg) == z3.BitVecVal(h, 256))
                    changed = True
            for app in self.exp_apps:
                x = m.eval(app.arg(0), model_completion=True)
                y = m.eval(app.arg(1), model_completion=True)
                if not (z3.is_bv_value(x) and z3.is_bv_value(y)):
                    return "unknown", None
                val = _exact_value(app.decl().name(), [x.as_long(), y.as_long()])
                cur = m.eval(app, model_completion=True)
                if not (z3.is_bv_value(cur) and cur.as_long() == val):
                    s.add(app.decl()(x, y) == z3.BitVecVal(val, app.size()))
                    changed = True
            if not changed:
                return "sat", m
        return "unknown", None


def to_z3(x):
    """halmos value (int, bytes, HalmosBitVec, HalmosBool, z3 ref, ByteVec) -> z3 term or python int/bytes"""
    if x is None or isinstance(x, (int, bytes)):
        return x
    if hasattr(x, "unwrap"):
        return to_z3(x.unwrap())
    if hasattr(x, "as_z3"):
        v = x.as_z3()
        return v
    return x


def ev_int(m, x):
    x = to_z3(x)
    if isinstance(x, bool):
        return int(x)
    if isinstance(x, int):
        return x
    if isinstance(x, bytes):
        return int.from_bytes(x, "big")
    if z3.is_bool(x):
        r = m.eval(x, model_completion=True)
        return 1 if z3.is_true(r) else 0
    r = m.eval(x, model_completion=True)
    if not z3.is_bv_value(r):
        r = z3.simplify(r)
    return r.as_long()


def ev_bytes(m, x, length=None):
    x = to_z3(x)
    if x is None:
        return None
    if isinstance(x, bytes):
        return x
    if isinstance(x, int):
        return x.to_bytes(length or 32, "big")
    r = m.eval(x, model_completion=True)
    if not z3.is_bv_value(r):
        r = z3.simplify(r)
    return r.as_long().to_bytes(r.size() // 8, "big")


def terms_of_context(ctx, out):
    """all z3 terms reachable from a halmos CallContext tree (so their abstractions get defined)"""
    from halmos.sevm import CallContext, EventLog, StorageRead, StorageWrite

    msg = ctx.message
    for x in (msg.target, msg.caller, msg.origin, msg.value, msg.data, ctx.output.data):
        t = to_z3(x)
        if t is not None and not isinstance(t, (int, bytes)):
            out.append(t)
    for el in ctx.trace:
        if isinstance(el, CallContext):
            terms_of_context(el, out)
        elif isinstance(el, EventLog):
            for x in [el.address, el.data, *el.topics]:
                t = to_z3(x)
                if t is not None and not isinstance(t, (int, bytes)):
                    out.append(t)
        elif isinstance(el, (StorageRead, StorageWrite)):
            for x in (el.address, el.slot, el.value):
                t = to_z3(x)
                if t is not None and not isinstance(t, (int, bytes)):
                    out.append(t)
    return out


SCHEMES = {0xF1: "CALL", 0xF2: "CALLCODE", 0xF4: "DELEGATECALL", 0xFA: "STATICCALL", 0xF0: "CREATE", 0xF5: "CREATE2"}


def compare_frames(m, hctx, rf: Frame, path="top", out=None, relax=None):
    """lock-step comparison of halmos' CallContext tree (evaluated under model m) with the
    reference frame tree; returns a list of (kind, text) mismatches"""
    from halmos.sevm import CallContext, EventLog, StorageRead, StorageWrite

    out = [] if out is None else out
    relax = relax or set()
    msg = hctx.message
    hk = error_kind(hctx.output.error)
    if (hk or "").startswith("stuck") or hctx.output.data is None:
        out.append(("stuck-subframe", f"{path}: halmos frame stuck ({hk})"))
        return out
    sch = SCHEMES.get(msg.call_scheme, str(msg.call_scheme))
    if sch != rf.scheme:
        out.append(("context-field", f"{path}: call scheme {sch} vs {rf.scheme}"))
        return out
    for name, hv, rv in (("target", msg.target, rf.target), ("caller", msg.caller, rf.caller),
                         ("origin", msg.origin, rf.origin), ("value", msg.value, rf.value)):
        if ev_int(m, hv) != rv:
            out.append(("context-field", f"{path}: {name} {ev_int(m, hv):#x} vs reference {rv:#x}"))
    if bool(msg.is_static) != bool(rf.static):
        out.append(("context-field", f"{path}: is_static {msg.is_static} vs {rf.static}"))
    hdata = ev_bytes(m, msg.data) or b""
    if hdata != rf.data:
        out.append(("context-field", f"{path}: input data {hdata.hex()} vs {rf.data.hex()}"))
    # outcome
    hclass = "success" if hk is None else ("revert" if hk == "revert" else "halt")
    rclass = "success" if rf.error is None else ("revert" if rf.error == "revert" else "halt")
    if hclass != rclass:
        out.append(("outcome", f"{path}: outcome {hk or 'success'} vs reference {rf.error or 'success'}"))
        return out
    # which exceptional halt ended a *sub*-frame is not observable on the EVM (the caller sees 0 and empty
    # return data either way), so the kind is only compared for the top-level frame
    if hclass == "halt" and hk != rf.error and path == "top":
        out.append(("halt-kind", f"{path}: halt kind {hk} vs reference {rf.error}"))
    hout = ev_bytes(m, hctx.output.data) or b""
    if hout != rf.output:
        out.append(("output", f"{path}: output {hout.hex()} vs reference {rf.output.hex()}"))
    # trace elements, in order
    hel = list(hctx.trace)
    rel = list(rf.trace)
    n = min(len(hel), len(rel))
    for i in range(n):
        h, r = hel[i], rel[i]
        p = f"{path}/{i}"
        if isinstance(h, CallContext):
            if not isinstance(r, Frame):
                out.append(("trace-shape", f"{p}: halmos subcall vs reference {r[0]}"))
                return out
            compare_frames(m, h, r, p, out, relax)
        elif isinstance(h, EventLog):
            if not (isinstance(r, tuple) and r[0] == "log"):
                out.append(("trace-shape", f"{p}: halmos log vs reference {type(r).__name__ if isinstance(r, Frame) else r[0]}"))
                return out
            ha = ev_int(m, h.address)
            ht = tuple(ev_int(m, t) for t in h.topics)
            hd = ev_bytes(m, h.data) or b""
            if (ha, ht, hd) != (r[1], r[2], r[3]):
                out.append(("log", f"{p}: log {(hex(ha), [hex(t) for t in ht], hd.hex())} vs reference {(hex(r[1]), [hex(t) for t in r[2]], r[3].hex())}"))
        elif isinstance(h, (StorageRead, StorageWrite)):
            want = "sload" if isinstance(h, StorageRead) else "sstore"
            if not (isinstance(r, tuple) and r[0] == want):
                out.append(("trace-shape", f"{p}: halmos {want} vs reference {type(r).__name__ if isinstance(r, Frame) else r[0]}"))
                return out
            ha, hs, hv = ev_int(m, h.address), ev_int(m, h.slot), ev_int(m, h.value)
            if (ha, hs, bool(h.transient)) != (r[1], r[2], bool(r[4])):
                out.append(("storage-slot", f"{p}: {want} at {ha:#x}[{hs:#x}] t={h.transient} vs reference {r[1]:#x}[{r[2]:#x}] t={r[4]}"))
            elif hv != r[3]:
                kind = "load-mismatch" if want == "sload" else "store-value"
                out.append((kind, f"{p}: {want} {ha:#x}[{hs:#x}] value {hv:#x} vs reference {r[3]:#x}"))
    if len(hel) != len(rel) and not out:
        out.append(("trace-shape", f"{path}: {len(hel)} trace elements vs reference {len(rel)}"))
    return out


def initial_reads(m, ctx, sym_addrs, out=None, written=None, consts=None):
    """for accounts with symbolic initial storage: the value (under model m) halmos returned for the first read of every
    slot that was not written before in the path; `consts` collects reads whose value term is a literal constant"""
    from halmos.sevm import CallContext, StorageRead, StorageWrite

    out = {} if out is None else out
    written = set() if written is None else written
    consts = [] if consts is None else consts
    for el in ctx.trace:
        if isinstance(el, CallContext):
            initial_reads(m, el, sym_addrs, out, written, consts)
        elif isinstance(el, (StorageRead, StorageWrite)) and not el.transient:
            a, sl = ev_int(m, el.address), ev_int(m, el.slot)
            if a not in sym_addrs:
                continue
            if isinstance(el, StorageWrite):
                written.add((a, sl))
            elif (a, sl) not in written and (a, sl) not in out:
                out[(a, sl)] = ev_int(m, el.value)
                t = to_z3(el.value)
                if isinstance(t, int) or (t is not None and not isinstance(t, bytes) and z3.is_bv_value(z3.simplify(t))):
                    consts.append((a, sl, out[(a, sl)]))
    return out, consts


def created_addresses(m, ctx, out=None):
    """targets of creation frames in halmos' trace, in execution order (the address oracle)"""
    from halmos.sevm import CallContext

    out = [] if out is None else out
    for el in ctx.trace:
        if isinstance(el, CallContext):
            if el.message.is_create():
                out.append(ev_int(m, el.message.target))
            created_addresses(m, el, out)
    return out


def run_reference(w: EWorld, conc: dict, created: list, cheat=None, cheat_addrs=(), max_steps=20000):
    world = World()
    for a, c in w.accounts.items():
        world.code[a] = c
        world.storage[a] = {}
        world.transient[a] = {}
    for a, v in conc["balances"].items():
        world.balance[a] = v
    state = {"i": 0}

    def oracle(scheme, creator, init, salt, n):
        i = state["i"]
        state["i"] += 1
        if i < len(created):
            return created[i]
        return 0xEEEE0000 + i  # halmos created fewer contracts than the reference: will mismatch

    evm = RefEVM(world, block=w.block and {**__import__("evm.refevm", fromlist=["DEFAULT_BLOCK"]).DEFAULT_BLOCK, **w.block},
                 addr_oracle=oracle, cheat=cheat, cheat_addrs=cheat_addrs, max_steps=max_steps)
    fr = evm.run_tx(w.target, conc["caller"], conc["origin"], conc["value"], conc["data"])
    return evm, world, fr


def final_state_mismatches(m, ex, world: World, addrs):
    """balances and code of all known accounts after a successful top-level frame"""
    from halmos.utils import con_addr

    out = []
    for a in addrs:
        hb = ev_int(m, z3.Select(ex.balance, con_addr(a)))
        if hb != world.bal(a):
            out.append(("balance", f"balance of {a:#x}: {hb} vs reference {world.bal(a)}"))
    hcodes = {}
    for k, c in ex.code.items():
        hcodes[ev_int(m, k)] = ev_bytes(m, c._code) or b""
    for a, code in world.code.items():
        if a not in hcodes:
            out.append(("code", f"account {a:#x} has code in the reference but does not exist in halmos"))
        elif hcodes[a] != code:
            out.append(("code", f"code of {a:#x}: {hcodes[a].hex()} vs reference {code.hex()}"))
    for a in hcodes:
        if a not in world.code:
            out.append(("code", f"account {a:#x} exists in halmos but not in the reference"))
    return out
