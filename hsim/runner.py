"""Seeded search driver: fork-per-batch runner, replay, minimiser, evidence writer.

A check module provides an object with:
    property_id, name, level ('exploration' | 'fault_enumeration'), rule (str), assumptions,
    components {'real': [...], 'stub': [...]}, prepare() (called once in the parent: imports),
    run_one(ch: Choices, *, keep_log: bool) -> dict   (executed in a forked child)
    enumerate_vectors(tier) -> list | None  (optional, for fault_enumeration checks)

run_one returns a dict with keys:
    violations: [ {oracle, disc, detail} ]      signature = f"{oracle}:{disc}"
    inconclusive: None | str
    faults: {kind: fired}, probes: {name: hits}
    digest: str (event-log digest), shape: str (workload-shape key), nontrivial: bool
    sim_seconds: float, steps: int
    descriptor: small JSON-able description of the run (used as an evidence sample)

Exit codes of a check: 0 ok, 1 VIOLATION (unknown signature), 2 HARNESS-ERROR.
"""

from __future__ import annotations

import faulthandler
import hashlib
import json
import os
import signal
import sys
import time
import traceback

from .choices import Choices, derive_seed

VERIF = os.path.dirname(os.path.dirname(os.path.abspath(__file__)))
EVIDENCE_DIR = os.path.join(VERIF, "evidence")
REPLAY_DIR = os.path.join(VERIF, "replays")
KNOWN_FILE = os.path.join(VERIF, "known_findings.json")


def _scratch():
    base = "/dev/shm" if os.path.isdir("/dev/shm") and os.access("/dev/shm", os.W_OK) else (
        os.environ.get("TMPDIR") or "/tmp")
    d = os.path.join(base, f"hsim-{os.getpid()}")
    os.makedirs(d, exist_ok=True)
    return d


def load_known():
    try:
        with open(KNOWN_FILE) as f:
            k = json.load(f)
    except FileNotFoundError:
        return {"findings": [], "fixed": []}
    k.setdefault("findings", [])
    k.setdefault("fixed", [])
    return k


def signature(v: dict) -> str:
    return f"{v['oracle']}:{v['disc']}"


# --------------------------------------------------------------------------------------
# child execution
# --------------------------------------------------------------------------------------


def _job_iter(jobs):
    """jobs: a list of (index, seed, replay, keep_log, extra) or a plan dict for a long-lived worker:
    {start, stride, max_index, deadline (time.monotonic), seed_parts (VERIF_SEED, check name), vectors}.
    Index i < len(vectors) is the i-th enumerated fault vector, the rest are seeded samples."""
    if isinstance(jobs, list):
        yield from jobs
        return
    i = jobs["start"]
    vectors = jobs.get("vectors") or []
    base, name = jobs["seed_parts"]
    while i < jobs["max_index"]:
        # enumerated vectors are always run; sampling stops at the deadline
        if i < len(vectors):
            if time.monotonic() > jobs["hard_deadline"]:
                return
            yield (i, derive_seed(base, name, "vec", i), None, False, {"vector": vectors[i]})
        else:
            if time.monotonic() > jobs["deadline"]:
                return
            yield (i, derive_seed(base, name, i - len(vectors)), None, False, None)
        i += jobs["stride"]


def _child_run_batch(check, jobs, out_path, run_timeout):
    """Results are appended to out_path one JSON line per run as soon as each run ends, so a run that
    hangs (and gets the worker killed by its alarm) only loses itself."""
    faulthandler.enable()
    with open(out_path, "w") as f:
        for (idx, seed, replay, keep_log, extra) in _job_iter(jobs):
            signal.alarm(int(run_timeout))
            t0 = time.perf_counter()
            try:
                ch = Choices(seed=seed, replay=replay)
                r = check.run_one(ch, keep_log=keep_log, **(extra or {}))
                r["choices_len"] = len(ch.record)
                if r.get("violations") or keep_log:
                    r["choices"] = ch.record
                r["overrun"] = ch.overrun
            except BaseException as e:  # noqa: BLE001
                r = {"harness_error": f"{type(e).__name__}: {e}", "traceback": traceback.format_exc()}
            signal.alarm(0)
            r["index"] = idx
            r["seed"] = seed
            if extra and "vector" in extra:
                r.setdefault("vector", extra["vector"])
            r["wall"] = time.perf_counter() - t0
            f.write(json.dumps(r, default=_json_default) + "\n")
            f.flush()


def _json_default(o):
    if isinstance(o, (set, frozenset)):
        return sorted(o)
    if isinstance(o, bytes):
        return o.hex()
    return repr(o)


class Pool:
    """explicit fork pool: each batch runs in a fresh child of the (import-only) parent"""

    def __init__(self, check, njobs, run_timeout):
        self.check = check
        self.njobs = njobs
        self.run_timeout = run_timeout
        self.scratch = _scratch()
        self.inflight = {}  # pid -> (out_path, jobs, started)
        self.requeue = []  # jobs of a batch whose worker died before reaching them
        self.respawn = []  # plans of long-lived workers that died and must be replaced
        self.seq = 0

    def submit(self, jobs):
        self.seq += 1
        out = os.path.join(self.scratch, f"r{self.seq}.json")
        sys.stdout.flush()
        sys.stderr.flush()
        pid = os.fork()
        if pid == 0:
            code = 0
            try:
                _child_run_batch(self.check, jobs, out, self.run_timeout)
            except BaseException:  # noqa: BLE001
                traceback.print_exc()
                code = 3
            finally:
                sys.stdout.flush()
                sys.stderr.flush()
                os._exit(code)
        self.inflight[pid] = (out, jobs, time.monotonic())

    def full(self):
        return len(self.inflight) >= self.njobs

    def reap(self, block=True):
        """returns list of result dicts of one finished child (or [] if none finished)"""
        if not self.inflight:
            return []
        while True:
            try:
                pid, status = os.waitpid(-1, 0 if block else os.WNOHANG)
            except ChildProcessError:
                self.inflight.clear()
                return []
            if pid == 0:
                return []
            if pid in self.inflight:
                break
        out, jobs, _ = self.inflight.pop(pid)
        res = []
        if os.path.exists(out):
            try:
                with open(out) as f:
                    for line in f:
                        if line.endswith("\n"):
                            res.append(json.loads(line))
            except Exception:  # noqa: BLE001
                pass
            os.unlink(out)
        died = not (os.WIFEXITED(status) and os.WEXITSTATUS(status) == 0)
        if isinstance(jobs, dict):
            if died:
                why = f"child died (status {status})"
                if os.WIFSIGNALED(status) and os.WTERMSIG(status) == signal.SIGALRM:
                    why = f"run exceeded the wall timeout of {self.run_timeout}s"
                nxt = (res[-1]["index"] + jobs["stride"]) if res else jobs["start"]
                res.append({"index": nxt, "seed": None, "harness_error": why, "wall": 0.0})
                # the worker is replaced; it continues behind the run that killed it
                self.respawn.append(dict(jobs, start=nxt + jobs["stride"]))
            return res
        if len(res) < len(jobs):
            why = f"child died (status {status})"
            if os.WIFSIGNALED(status) and os.WTERMSIG(status) == signal.SIGALRM:
                why = f"run exceeded the wall timeout of {self.run_timeout}s"
            # the run that was in progress is a harness error; the ones behind it were never started
            j = jobs[len(res)]
            res.append({"index": j[0], "seed": j[1], "harness_error": why, "wall": 0.0})
            self.requeue.extend(jobs[len(res):])
        return res

    def drain(self):
        out = []
        while self.inflight:
            out.extend(self.reap(True))
        return out

    def close(self):
        for pid in list(self.inflight):
            try:
                os.kill(pid, signal.SIGKILL)
            except ProcessLookupError:
                pass
        self.drain()
        try:
            for f in os.listdir(self.scratch):
                os.unlink(os.path.join(self.scratch, f))
            os.rmdir(self.scratch)
        except OSError:
            pass


# --------------------------------------------------------------------------------------
# minimiser
# --------------------------------------------------------------------------------------


def _eval_candidates(pool: Pool, cands, target_sig, extra):
    """run every candidate choice list; return index of the first that still shows target_sig"""
    results = {}
    pending = list(enumerate(cands))
    while pending or pool.inflight:
        while pending and not pool.full():
            i, c = pending.pop(0)
            pool.submit([(i, None, c, False, extra)])
        for r in pool.reap(True):
            sigs = [signature(v) for v in r.get("violations", [])]
            results[r["index"]] = (target_sig in sigs, r)
    for i in range(len(cands)):
        ok, r = results.get(i, (False, None))
        if ok:
            return i, r
    return None, None


def shrink(check, choices, target_sig, njobs, budget_s, run_timeout, extra=None, log=print):
    """delta-debug the choice list while the same signature persists"""
    t_end = time.monotonic() + budget_s
    pool = Pool(check, njobs, run_timeout)
    best = list(choices)
    tried = 0
    try:
        def attempt(cands):
            nonlocal best, tried
            cands = [c for c in cands if c != best]
            if not cands or time.monotonic() > t_end or tried > 3000:
                return False
            tried += len(cands)
            i, r = _eval_candidates(pool, cands, target_sig, extra)
            if i is None:
                return False
            # use what the run really consumed (drops an unused tail)
            rec = r.get("choices") or cands[i]
            best = list(rec) if len(rec) <= len(cands[i]) else list(cands[i])
            return True

        # strip trailing zeros / unused tail first
        while best and best[-1] == 0:
            best.pop()
        # 1. truncate tail
        n = len(best)
        cuts = sorted({n // 8, n // 4, n // 2, (3 * n) // 4, (7 * n) // 8} - {n})
        attempt([best[:c] for c in cuts])
        # 2. delete blocks
        size = max(len(best) // 2, 1)
        while size >= 1 and time.monotonic() < t_end:
            progressed = True
            while progressed and time.monotonic() < t_end:
                progressed = False
                cands = [best[:s] + best[s + size:] for s in range(0, len(best), size)]
                # evaluate in chunks so that early successes are used quickly
                for k in range(0, len(cands), njobs * 2):
                    if attempt(cands[k:k + njobs * 2]):
                        progressed = True
                        break
            if size == 1:
                break
            size //= 2
        # 3. zero entries, then lower them
        for transform in (lambda v: 0, lambda v: v // 2, lambda v: v - 1):
            progressed = True
            while progressed and time.monotonic() < t_end:
                progressed = False
                idxs = [i for i, v in enumerate(best) if v > 0]
                cands = []
                for i in idxs:
                    c = list(best)
                    c[i] = transform(c[i])
                    cands.append(c)
                for k in range(0, len(cands), njobs * 2):
                    if attempt(cands[k:k + njobs * 2]):
                        progressed = True
                        break
        while best and best[-1] == 0:
            best.pop()
    finally:
        pool.close()
    return best, tried


# --------------------------------------------------------------------------------------
# main driver
# --------------------------------------------------------------------------------------


def _fresh_result(check, choices, run_timeout, extra=None, keep_log=True):
    pool = Pool(check, 1, run_timeout)
    try:
        pool.submit([(0, None, list(choices), keep_log, extra)])
        res = pool.drain()
    finally:
        pool.close()
    return res[0] if res else {"harness_error": "no result"}


def replay_file(check, path, run_timeout=120):
    with open(path) as f:
        rep = json.load(f)
    check.prepare()
    r1 = _fresh_result(check, rep["choices"], run_timeout, rep.get("extra"))
    if "harness_error" in r1:
        print(f"HARNESS-ERROR: {r1['harness_error']}")
        print(r1.get("traceback", ""))
        return 2
    sigs = [signature(v) for v in r1.get("violations", [])]
    want = rep["violation"]["signature"]
    for entry in r1.get("log", [])[-40:]:
        print("  log", entry)
    for v in r1.get("violations", []):
        print(f"  violation {signature(v)}: {v['detail']}")
    if want in sigs:
        same = r1.get("digest") == rep.get("event_log_sha")
        print(f"replayed: signature {want} reproduced; event-log digest "
              f"{'identical' if same else 'DIFFERENT'} ({r1.get('digest')})")
        print(f"VIOLATION property={rep['property']} replay={path}")
        return 1 if same else 2
    print(f"REPLAY-MISMATCH: wanted {want}, got {sigs}")
    return 2


def run_check(check, tier="quick", seed=None, budget_s=None, njobs=None, max_runs=None,
              runs_per_fork=None, run_timeout=None, shrink_budget=None):
    t_start = time.monotonic()
    seed = int(os.environ.get("VERIF_SEED", "20260922")) if seed is None else seed
    njobs = int(os.environ.get("VERIF_JOBS", "16")) if njobs is None else njobs
    cfg = check.tiers[tier]
    budget_s = float(os.environ.get("VERIF_BUDGET_S", cfg.get("budget_s", 60))) if budget_s is None else budget_s
    max_runs = cfg.get("max_runs", 10**9) if max_runs is None else max_runs
    runs_per_fork = cfg.get("runs_per_fork", 1) if runs_per_fork is None else runs_per_fork
    run_timeout = cfg.get("run_timeout", 60) if run_timeout is None else run_timeout
    shrink_budget = cfg.get("shrink_budget", 60) if shrink_budget is None else shrink_budget
    os.makedirs(EVIDENCE_DIR, exist_ok=True)
    os.makedirs(REPLAY_DIR, exist_ok=True)

    check.prepare()
    known = load_known()
    known_sigs = {k["signature"]: k for k in known["findings"] if k.get("property") == check.property_id}

    # fixed part of the plan (enumerated vectors), then seeded sampling
    vectors = check.enumerate_vectors(tier) if hasattr(check, "enumerate_vectors") else None

    pool = Pool(check, njobs, run_timeout)
    agg = {
        "runs": 0, "harness_errors": [], "inconclusive": {}, "faults": {}, "probes": {},
        "keys": set(), "nontrivial_keys": set(), "digests": set(), "sim_seconds": 0.0, "steps": 0,
        "samples": [], "violations": {}, "wall_in_runs": 0.0, "vectors_done": set(),
        "shapes": set(),
    }

    def absorb(results):
        for r in results:
            agg["runs"] += 1
            if "harness_error" in r:
                agg["harness_errors"].append({k: r.get(k) for k in ("index", "seed", "harness_error", "traceback")})
                continue
            agg["wall_in_runs"] += r.get("wall", 0.0)
            if r.get("inconclusive"):
                agg["inconclusive"][r["inconclusive"]] = agg["inconclusive"].get(r["inconclusive"], 0) + 1
            for k, v in r.get("faults", {}).items():
                agg["faults"][k] = agg["faults"].get(k, 0) + v
            for k, v in r.get("probes", {}).items():
                agg["probes"][k] = agg["probes"].get(k, 0) + v
            key = hashlib.sha1(f"{r.get('shape')}|{r.get('digest')}".encode()).hexdigest()[:16]
            agg["keys"].add(key)
            agg["digests"].add(r.get("digest"))
            agg["shapes"].add(r.get("shape"))
            if r.get("nontrivial"):
                agg["nontrivial_keys"].add(key)
            agg["sim_seconds"] += r.get("sim_seconds", 0.0)
            agg["steps"] += r.get("steps", 0)
            if r.get("vector") is not None:
                agg["vectors_done"].add(json.dumps(r["vector"], sort_keys=True))
            if len(agg["samples"]) < 3 and r.get("descriptor") is not None and r.get("nontrivial"):
                agg["samples"].append({"seed": r.get("seed"), "index": r["index"], **r["descriptor"]})
            for v in r.get("violations", []):
                sig = signature(v)
                ent = agg["violations"].setdefault(sig, {"count": 0, "first": None})
                ent["count"] += 1
                if ent["first"] is None or len(r.get("choices", [])) < len(ent["first"].get("choices", [])):
                    ent["first"] = r
                    ent["v"] = v

    try:
        deadline = t_start + budget_s
        nvec = len(vectors) if vectors else 0
        max_index = nvec + max_runs if max_runs < 10**9 else 10**9
        # one long-lived worker per job slot, each taking every njobs-th index until the deadline
        # (a worker keeps its heap warm; forking per run is kept for replay and minimisation only)
        for wk in range(njobs):
            pool.submit(dict(start=wk, stride=njobs, max_index=max_index, deadline=deadline,
                             hard_deadline=t_start + 1.5 * budget_s + 30, seed_parts=(seed, check.name),
                             vectors=vectors or []))
        while pool.inflight:
            absorb(pool.reap(True))
            while pool.respawn:
                pool.submit(pool.respawn.pop(0))
    finally:
        pool.close()

    wall_search = time.monotonic() - t_start

    # ---------------------------------------------------------------- violations
    exit_code = 0
    lines = []
    new_violation_count = 0
    known_seen = {}
    shrink_each = shrink_budget / max(1, min(len(agg["violations"]), 4))
    for n_sig, (sig, ent) in enumerate(sorted(agg["violations"].items())):
        r = ent["first"]
        v = ent["v"]
        if sig in known_sigs:
            known_seen[sig] = ent["count"]
            lines.append(f"KNOWN-FINDING: property={check.property_id} {sig} - {known_sigs[sig].get('what', '')} (seen in {ent['count']} runs)")
            continue
        new_violation_count += 1
        extra = {"vector": r["vector"]} if r.get("vector") is not None else None
        choices = r.get("choices", [])
        tried = 0
        if n_sig < 4 and shrink_each > 1:
            try:
                small, tried = shrink(check, choices, sig, njobs, shrink_each, run_timeout, extra)
            except Exception as e:  # noqa: BLE001
                small = choices
                print(f"(minimiser failed: {e!r})")
        else:
            small = choices
        final = _fresh_result(check, small, run_timeout, extra)
        fsigs = [signature(x) for x in final.get("violations", [])]
        if sig not in fsigs:
            # the fresh-process replay did not reproduce: nondeterminism in the harness
            final2 = _fresh_result(check, choices, run_timeout, extra)
            fsigs2 = [signature(x) for x in final2.get("violations", [])]
            if sig in fsigs2:
                final, small = final2, choices
            else:
                agg["harness_errors"].append({"harness_error": f"nondeterministic-replay of {sig}", "seed": r.get("seed")})
                continue
        fv = [x for x in final["violations"] if signature(x) == sig][0]
        name = f"{check.property_id}-{hashlib.sha1(sig.encode()).hexdigest()[:10]}.json"
        path = os.path.join(REPLAY_DIR, name)
        with open(path, "w") as f:
            json.dump({
                "property": check.property_id, "check": check.name, "seed": r.get("seed"),
                "extra": extra, "choices": small,
                "violation": {"oracle": fv["oracle"], "signature": sig, "detail": fv["detail"]},
                "event_log_sha": final.get("digest"),
                "descriptor": final.get("descriptor"),
                "minimised_from": len(choices), "minimiser_candidates": tried,
                "original_choices": choices if len(choices) <= 4000 else None,
                "log_tail": final.get("log", [])[-60:],
            }, f, indent=1, default=_json_default)
        lines.append(f"VIOLATION property={check.property_id} replay={path}")
        lines.append(f"  signature={sig} runs={ent['count']} choices={len(small)} (from {len(choices)})")
        lines.append(f"  detail: {fv['detail']}")
        exit_code = 1

    n_incon = sum(agg["inconclusive"].values())
    n_err = len(agg["harness_errors"])
    if n_err and exit_code == 0:
        # any harness error is reported; more than 2% of runs (or any replay nondeterminism) fails the check
        if n_err > max(2, 0.02 * agg["runs"]) or any("nondeterministic" in (e.get("harness_error") or "") for e in agg["harness_errors"]):
            exit_code = 2
    if agg["runs"] and n_incon > 0.35 * agg["runs"] and exit_code == 0:
        exit_code = 2
        lines.append(f"HARNESS-ERROR: {n_incon} of {agg['runs']} runs inconclusive")
    if agg["runs"] == 0:
        exit_code = 2
        lines.append("HARNESS-ERROR: no run completed")

    wall = time.monotonic() - t_start
    distinct_nontrivial = len(agg["nontrivial_keys"])
    samples = agg["samples"] or [{"note": "no non-trivial run in this batch"}]
    coverage = {
        "evaluations": agg["runs"],
        "distinct_nontrivial": distinct_nontrivial,
        "rule": check.rule,
        "samples": samples,
        "runs_per_hour": int(agg["runs"] / wall_search * 3600) if wall_search > 0 else 0,
        "seeds": {"VERIF_SEED": seed, "per_run": "sha256(VERIF_SEED, check, index)[:8]"},
        "simulated_seconds": round(agg["sim_seconds"], 3),
        "scheduler_steps": agg["steps"],
        "fault_counts": dict(sorted(agg["faults"].items())),
        "probe_counts": dict(sorted(agg["probes"].items())),
        "distinct_interleavings": len(agg["digests"]),
        "distinct_workload_shapes": len(agg["shapes"]),
        "inconclusive": agg["inconclusive"],
        "harness_errors": n_err,
        "components": check.components,
        "known_findings_seen": known_seen,
        "jobs": njobs,
    }
    if vectors is not None:
        coverage["fault_vectors_enumerated"] = len(vectors)
        coverage["fault_vectors_run"] = len(agg["vectors_done"])
        coverage["exhaustive"] = False
    evidence = {
        "property_id": check.property_id,
        "tier": tier,
        "seed": seed,
        "level": check.level,
        "coverage": coverage,
        "assumptions": check.assumptions,
        "wall_s": round(wall, 2),
        "violations": new_violation_count,
    }
    evdir = EVIDENCE_DIR
    alt = os.environ.get("VERIF_REPO_SRC")
    if (alt and os.path.realpath(alt) != os.path.realpath("/repo/src")) or os.environ.get("VERIF_EVIDENCE_ALT"):
        # a run against another source tree (a seeded change, a snapshot) must not overwrite the evidence of /repo itself
        evdir = os.path.join("/dev/shm" if os.path.isdir("/dev/shm") else "/tmp", "verif-evidence-alt")
        os.makedirs(evdir, exist_ok=True)
    evp = os.path.join(evdir, f"{check.property_id}.json")
    tmp = evp + f".tmp{os.getpid()}"
    with open(tmp, "w") as f:
        json.dump(evidence, f, indent=1, default=_json_default)
    os.replace(tmp, evp)

    print(f"[{check.property_id}/{check.name}] tier={tier} seed={seed} runs={agg['runs']} "
          f"distinct_nontrivial={distinct_nontrivial} interleavings={len(agg['digests'])} "
          f"inconclusive={n_incon} harness_errors={n_err} wall={wall:.1f}s "
          f"({coverage['runs_per_hour']} runs/h)")
    print(f"  faults fired: {coverage['fault_counts']}")
    print(f"  probes: {coverage['probe_counts']}")
    for e in agg["harness_errors"][:5]:
        print(f"HARNESS-ERROR: {e.get('harness_error')} (index={e.get('index')} seed={e.get('seed')})")
        if e.get("traceback"):
            print(e["traceback"])
    for ln in lines:
        print(ln)
    return exit_code


def main_for(check_factory):
    """common CLI: <tier> [--replay FILE]"""
    import argparse

    ap = argparse.ArgumentParser()
    ap.add_argument("tier", nargs="?", default=os.environ.get("VERIF_TIER", "quick"))
    ap.add_argument("--replay")
    ap.add_argument("--budget", type=float)
    ap.add_argument("--runs", type=int)
    ap.add_argument("--jobs", type=int)
    ap.add_argument("--seed", type=int)
    a = ap.parse_args()
    check = check_factory()
    if a.replay:
        return replay_file(check, a.replay)
    return run_check(check, tier=a.tier, seed=a.seed, budget_s=a.budget, njobs=a.jobs, max_runs=a.runs)
