"""Deterministic scheduler: real threads, baton-passed.

Exactly one task holds the baton; every other task is parked on a private real semaphore.  A task
gives the baton up only at a yield point (a call into one of the shims in hsim.shims, or - when line
pre-emption is enabled - a source line of a traced file).  At a yield the scheduler evaluates the
wake predicate of every parked task, picks the next runnable task through the run's Choices stream,
and if nothing is runnable advances the simulated clock to the next timer.  No runnable task and no
timer is a deadlock.

The choice of who runs is the only thing that is simulated about threads: the threads themselves are
real OS threads, so halmos code (locks in the stdlib Future, thread-local state, z3) runs unmodified.
"""

from __future__ import annotations

import hashlib
import sys
import threading as _rt  # the real threading module; never patched globally
import traceback

from .choices import Choices

INF = float("inf")


class SimAbort(BaseException):
    """Raised inside tasks to unwind them when the simulation is torn down."""


class Task:
    __slots__ = ("id", "name", "thread", "sem", "state", "pred", "deadline", "label", "exc",
                 "timed_out", "facade", "countdown", "is_main", "kind")

    def __init__(self, tid: int, name: str, kind: str = "halmos"):
        self.id = tid
        self.name = name
        self.thread = None
        self.sem = _rt.Semaphore(0)
        self.state = "ready"  # ready | blocked | done
        self.pred = None
        self.deadline = INF
        self.label = ""
        self.exc = None
        self.timed_out = False
        self.facade = None
        self.countdown = -1
        self.is_main = False
        self.kind = kind  # 'client' (created by the harness) or 'halmos' (created by halmos code)

    def __repr__(self):
        return f"<Task {self.id} {self.name} {self.state} {self.label}>"


class Sim:
    """One simulated run."""

    def __init__(self, choices: Choices, *, max_steps: int = 20000, preempt_k: int = 0,
                 trace_files: tuple[str, ...] = (), tick: float = 1e-6, keep_log: bool = False):
        self.ch = choices
        self.max_steps = max_steps
        self.preempt_k = preempt_k  # 0 = no line-level pre-emption; else max lines between them
        self.trace_files = tuple(trace_files)
        self.tick = tick
        self.now = 0.0
        self.steps = 0
        self.switches = 0
        self.tasks: list[Task] = []
        self.current: Task | None = None
        self.aborted: str | None = None  # None | 'deadlock' | 'step-cap' | 'error:<..>' | 'done'
        self.deadlock_info: list[str] = []
        self._h = hashlib.sha1()
        self.nlog = 0
        self.keep_log = keep_log
        self.log: list[tuple] = []
        self.timers: list = []  # callables returning the next time (> now) at which state changes
        self.fault_counts: dict[str, int] = {}
        self.probe_counts: dict[str, int] = {}
        self.events: list[tuple] = []  # history for oracles: (seq, task, kind, payload)
        self.task_errors: list[tuple[str, str, str]] = []  # (task name, exc type, text)
        self.on_idle = None  # optional hook called when the clock is about to jump
        self._by_ident: dict[int, Task] = {}
        self._in_sched = False  # wake predicates may call traced halmos code: never pre-empt there
        self.idle_labels = {"pool.idle"}
        # an asynchronous interrupt (a signal handler): runs on the stack of one task at one of its scheduling points
        self.interrupts: list[dict] = []

    def set_interrupt(self, task_name: str, after_steps: int, handler):
        """handler() is called on the stack of the named task at its first call-boundary scheduling point once `after_steps`
        scheduler steps have passed (at quiescence at the latest); it may raise, like a signal handler calling sys.exit.
        Several interrupts may be armed; a later one can land while the handler of an earlier one is running."""
        self.interrupts.append(dict(task=task_name, due=after_steps, handler=handler, delivered=False))

    def _interrupt_due(self, t: Task) -> dict | None:
        for it in self.interrupts:
            if not it["delivered"] and t.name == it["task"] and self.steps >= it["due"]:
                return it
        return None

    def _deliver(self, me: Task) -> bool:
        it = self._interrupt_due(me)
        if it is None:
            return False
        if me.label.startswith("line:"):
            # CPython runs signal handlers only where the eval loop checks for them (calls, function entry, backward jumps),
            # never between the end of a `with` body and the call of __exit__; a line-level pre-emption point can be exactly
            # there, so interrupts are delivered at call boundaries (the shims' yield points) only
            return False
        it["delivered"] = True
        self.fault("interrupt_delivered")
        self._log(me.name, "interrupt:" + me.label.split(":")[0])
        it["handler"]()
        return True

    # ------------------------------------------------------------------ bookkeeping
    def fault(self, kind: str, n: int = 1):
        self.fault_counts[kind] = self.fault_counts.get(kind, 0) + n

    def probe(self, name: str, n: int = 1):
        self.probe_counts[name] = self.probe_counts.get(name, 0) + n

    def emit(self, ev_: str, /, **payload):
        """history event, stamped with the global sequence number"""
        if self.aborted:
            return
        t = self.current
        self.events.append((self.nlog, t.name if t else "-", ev_, payload))
        self._log(t.name if t else "-", "ev:" + ev_ + ":" + ",".join(
            f"{k}={payload[k]!r}" for k in sorted(payload)))

    def _log(self, who: str, what: str):
        if self.aborted:
            return
        self.nlog += 1
        self._h.update(f"{self.nlog}|{who}|{what}|{self.now:.6f}\n".encode())
        if self.keep_log:
            self.log.append((self.nlog, who, what, round(self.now, 6)))

    def digest(self) -> str:
        return self._h.hexdigest()

    def in_task(self) -> bool:
        return _rt.get_ident() in self._by_ident

    def me(self) -> Task:
        return self._by_ident[_rt.get_ident()]

    # ------------------------------------------------------------------ task creation
    def spawn(self, fn, name: str, kind: str = "halmos", facade=None) -> Task:
        """create a task; it runs only when the scheduler hands it the baton"""
        t = Task(len(self.tasks), name, kind)
        t.facade = facade
        self.tasks.append(t)

        def body():
            t.sem.acquire()
            self._by_ident[_rt.get_ident()] = t
            try:
                if self.aborted:
                    return
                self._install_trace(t)
                try:
                    fn()
                except SimAbort:
                    pass
                except BaseException as e:  # noqa: BLE001 - recorded, judged by the oracle
                    t.exc = e
                    self.task_errors.append((t.name, type(e).__name__, f"{e}", t.kind,
                                             traceback.format_exc()))
                    self._log(t.name, f"task-exception:{type(e).__name__}")
                    if self.keep_log:
                        self.log.append(("tb", t.name, traceback.format_exc()))
            finally:
                sys.settrace(None)
                t.state = "done"
                if not self.aborted:
                    self._log(t.name, "exit")
                    try:
                        self._schedule(t)
                    except SimAbort:
                        pass

        th = _rt.Thread(target=body, name=f"sim-{name}", daemon=True)
        t.thread = th
        th.start()
        self._log(self.current.name if self.current else "-", f"spawn:{name}")
        return t

    # ------------------------------------------------------------------ yield points
    def yield_(self, label: str):
        """the current task stays runnable but may lose the baton"""
        if self.aborted:
            raise SimAbort()
        me = self.me()
        me.state = "ready"
        me.label = label
        self._schedule(me)
        self._deliver(me)

    def block(self, label: str, pred, deadline: float = INF) -> bool:
        """park until pred() is true (-> True) or the simulated clock reaches deadline (-> False)"""
        if self.aborted:
            raise SimAbort()
        me = self.me()
        while True:
            me.state = "blocked"
            me.pred = pred
            me.deadline = deadline
            me.label = label
            me.timed_out = False
            self._schedule(me)
            if self._deliver(me) and me.timed_out and self.now < deadline:
                self._in_sched = True
                try:
                    again = not pred()
                finally:
                    self._in_sched = False
                if again:
                    continue  # woken for the interrupt only and its handler returned: keep waiting
                me.timed_out = False
            break
        return not me.timed_out

    def sleep(self, d: float, label: str = "sleep"):
        self.block(label, lambda: False, self.now + max(d, 0.0))

    # ------------------------------------------------------------------ the scheduler
    def _runnable(self, me: Task) -> list[Task]:
        out = []
        now = self.now
        for t in self.tasks:
            if t.state == "ready":
                out.append(t)
            elif t.state == "blocked":
                if t.pred():
                    out.append(t)
                elif t.deadline <= now:
                    out.append(t)
                elif self._interrupt_due(t) is not None:
                    out.append(t)
        # the current task first, so that choice 0 means "no context switch"
        if me in out:
            out.remove(me)
            out.insert(0, me)
        return out

    def _next_time(self) -> float:
        nt = INF
        for t in self.tasks:
            if t.state == "blocked" and self.now < t.deadline < nt:
                nt = t.deadline
        for f in self.timers:
            x = f()
            if x is not None and self.now < x < nt:
                nt = x
        return nt

    def _schedule(self, me: Task):
        """called by the task that holds the baton"""
        if self.aborted:
            raise SimAbort()
        self.steps += 1
        if self.steps > self.max_steps:
            self._abort("step-cap")
            raise SimAbort()
        self.now += self.tick
        while True:
            self._in_sched = True
            try:
                runnable = self._runnable(me)
            finally:
                self._in_sched = False
            if runnable:
                break
            nt = self._next_time()
            if nt == INF:
                late = next((it for it in self.interrupts if not it["delivered"] and it["due"] > self.steps
                             and any(t.name == it["task"] and t.state != "done" for t in self.tasks)), None)
                if late is not None:
                    late["due"] = self.steps  # nothing else can happen: the signal arrives now
                    continue
            if nt == INF:
                self.deadlock_info = [f"{t.name}:{t.label}" for t in self.tasks if t.state == "blocked"]
                # idle workers of a thread pool nobody shut down are not a hang: in the stdlib they are reaped
                # when the executor is collected / at interpreter exit
                if all(t.state == "done" or (t.state == "blocked" and t.label in self.idle_labels)
                       for t in self.tasks if not t.is_main) and any(
                        t.is_main and t.label == "main-wait-all" and t.state != "done" for t in self.tasks):
                    self._abort("done")
                    raise SimAbort()
                if all(t.state == "done" for t in self.tasks):
                    self._abort("done")
                else:
                    self._log("-", "deadlock:" + ";".join(self.deadlock_info))
                    self._abort("deadlock")
                raise SimAbort()
            if self.on_idle:
                self.on_idle(nt)
            self.now = nt
            self._log("-", "clock")
        if len(runnable) == 1:
            nxt = runnable[0]
        else:
            nxt = runnable[self.ch.pick(len(runnable), "sched")]
        if nxt.state == "blocked":
            self._in_sched = True
            try:
                nxt.timed_out = not nxt.pred()
            finally:
                self._in_sched = False
            nxt.state = "ready"
            nxt.pred = None
        if nxt is me:
            self._log(me.name, "cont:" + me.label)
            return
        self.switches += 1
        self._log(nxt.name, "run:" + nxt.label)
        self.current = nxt
        nxt.sem.release()
        if me.state != "done":
            me.sem.acquire()
            if self.aborted:
                raise SimAbort()

    def _abort(self, reason: str):
        if self.aborted:
            return
        self.aborted = reason
        for t in self.tasks:
            if t.state != "done":
                t.sem.release()

    # ------------------------------------------------------------------ line-level pre-emption
    def _install_trace(self, t: Task):
        if not self.preempt_k or not self.trace_files:
            return
        files = self.trace_files
        sim = self

        def local(frame, event, arg):
            if event == "line" and not sim.aborted and not sim._in_sched:
                if t.countdown < 0:
                    v = sim.ch.pick(sim.preempt_k + 1, "preempt")
                    # v == 0: no pre-emption for the next k lines
                    t.countdown = (sim.preempt_k if v == 0 else v) * 2 + (0 if v == 0 else 1)
                t.countdown -= 2
                if t.countdown < 2:
                    fire = t.countdown == 1
                    t.countdown = -1
                    if fire:
                        sim.fault("line_preempt")
                        sim.yield_(f"line:{frame.f_code.co_name}:{frame.f_lineno}")
            return local

        def glob(frame, event, arg):
            if not sim._in_sched and frame.f_code.co_filename.endswith(files):
                return local
            return None

        sys.settrace(glob)

    # ------------------------------------------------------------------ entry point
    def run(self, main_fn, name: str = "main"):
        """run main_fn as the main task in the calling thread; returns when every task is done,
        or the simulation aborted (deadlock, step cap).  Returns main_fn's result or None."""
        t = Task(len(self.tasks), name, "client")
        t.is_main = True
        t.thread = _rt.current_thread()
        self.tasks.append(t)
        self._by_ident[_rt.get_ident()] = t
        self.current = t
        result = None
        try:
            self._install_trace(t)
            try:
                result = main_fn()
            except SimAbort:
                pass
            finally:
                sys.settrace(None)
            # main is finished: keep scheduling until all tasks are done
            if not self.aborted:
                t.state = "blocked"
                t.label = "main-wait-all"
                t.pred = lambda: all(x.state == "done" for x in self.tasks if x is not t)
                t.deadline = INF
                try:
                    self._schedule(t)
                except SimAbort:
                    pass
            t.state = "done"
            if not self.aborted:
                self._log("-", "quiescent")
                self.aborted = "done"
        finally:
            self._abort(self.aborted or "done")
            for x in self.tasks:
                if x.thread is not None and x is not t:
                    x.thread.join(timeout=5.0)
            self._by_ident.pop(_rt.get_ident(), None)
        return result

    @property
    def outcome(self) -> str:
        return self.aborted or "running"
