"""Simulated counterparts of the stdlib / third-party objects halmos uses to meet the outside world.

threading (Thread, Event, Lock, RLock, current_thread, main_thread), concurrent.futures
(ThreadPoolExecutor, wait; the real Future class is kept and its blocking methods are made
simulation-aware), subprocess.Popen, psutil, time, timeit.default_timer.

All of them act on the Sim that is current in this process (hsim.shims.SIM).
"""

from __future__ import annotations

import concurrent.futures as _cf
import subprocess as _sp
import threading as _rt
import types
from collections import deque
from dataclasses import dataclass, field

import psutil as _psutil

from .sched import INF, Sim

SIM: Sim | None = None


def _sim() -> Sim:
    return SIM


# ======================================================================================
# threading
# ======================================================================================


class SimThread:
    _count = 0

    def __init__(self, group=None, target=None, name=None, args=(), kwargs=None, *, daemon=None):
        SimThread._count += 1
        self._target = target
        self._args = args
        self._kwargs = kwargs or {}
        self.daemon = bool(daemon)
        self._task = None
        self._given_name = name
        self.name = name or "T?"

    def run(self):
        if self._target is not None:
            self._target(*self._args, **self._kwargs)

    def start(self):
        sim = _sim()
        if self._task is not None:
            raise RuntimeError("threads can only be started once")
        idx = sum(1 for t in sim.tasks if t.kind == "halmos")
        self.name = self._given_name or f"T{idx}"
        self._task = sim.spawn(self.run, self.name, kind=getattr(self, "_kind", "halmos"),
                               facade=self)
        sim.yield_("thread.start")

    def join(self, timeout=None):
        sim = _sim()
        t = self._task
        if t is None:
            raise RuntimeError("cannot join thread before it is started")
        dl = INF if timeout is None else sim.now + timeout
        sim.block("thread.join", lambda: t.state == "done", dl)

    def is_alive(self):
        return self._task is not None and self._task.state != "done"

    @property
    def ident(self):
        return None if self._task is None else 1000 + self._task.id

    def __repr__(self):
        return f"<SimThread {self.name}>"


class SimEvent:
    def __init__(self):
        self._flag = False

    def is_set(self):
        sim = _sim()
        sim.yield_("event.is_set")
        return self._flag

    isSet = is_set

    def set(self):
        sim = _sim()
        sim.yield_("event.set")
        self._flag = True

    def clear(self):
        sim = _sim()
        sim.yield_("event.clear")
        self._flag = False

    def wait(self, timeout=None):
        sim = _sim()
        dl = INF if timeout is None else sim.now + timeout
        sim.block("event.wait", lambda: self._flag, dl)
        return self._flag


class SimLock:
    def __init__(self):
        self._owner = None
        self._depth = 0

    _reentrant = False

    def acquire(self, blocking=True, timeout=-1):
        sim = _sim()
        me = sim.me()
        sim.yield_("lock.acquire")
        if self._reentrant and self._owner is me:
            self._depth += 1
            return True
        if not blocking:
            if self._owner is None:
                self._owner = me
                self._depth = 1
                return True
            return False
        dl = INF if timeout is None or timeout < 0 else sim.now + timeout
        while self._owner is not None:
            if not sim.block("lock.wait", lambda: self._owner is None, dl):
                return False
        self._owner = me
        self._depth = 1
        return True

    def release(self):
        sim = _sim()
        if self._owner is None:
            raise RuntimeError("release unlocked lock")
        self._depth -= 1
        if self._depth == 0:
            self._owner = None
        if not sim.aborted:
            sim.yield_("lock.release")

    def locked(self):
        return self._owner is not None

    def __enter__(self):
        self.acquire()
        return self

    def __exit__(self, *a):
        self.release()
        return False


class SimRLock(SimLock):
    _reentrant = True


def _current_thread():
    sim = _sim()
    if sim is None or not sim.in_task():
        return _rt.current_thread()
    t = sim.me()
    if t.is_main:
        return _rt.main_thread()
    return t.facade if t.facade is not None else t.thread


def make_threading_ns():
    ns = types.SimpleNamespace()
    ns.Thread = SimThread
    ns.Event = SimEvent
    ns.Lock = SimLock
    ns.RLock = SimRLock
    ns.current_thread = _current_thread
    ns.main_thread = _rt.main_thread
    ns.get_ident = _rt.get_ident
    ns.local = _rt.local
    return ns


# ======================================================================================
# concurrent.futures
# ======================================================================================

_orig_future_result = _cf.Future.result
_orig_future_exception = _cf.Future.exception


def _future_result(self, timeout=None):
    sim = SIM
    if sim is not None and sim.in_task():
        dl = INF if timeout is None else sim.now + timeout
        if not sim.block("future.result", self.done, dl):
            raise _cf.TimeoutError()
        return _orig_future_result(self, 0)
    return _orig_future_result(self, timeout)


def _future_exception(self, timeout=None):
    sim = SIM
    if sim is not None and sim.in_task():
        dl = INF if timeout is None else sim.now + timeout
        if not sim.block("future.exception", self.done, dl):
            raise _cf.TimeoutError()
        return _orig_future_exception(self, 0)
    return _orig_future_exception(self, timeout)


def patch_future_class():
    _cf.Future.result = _future_result
    _cf.Future.exception = _future_exception


def unpatch_future_class():
    _cf.Future.result = _orig_future_result
    _cf.Future.exception = _orig_future_exception


def sim_wait(fs, timeout=None, return_when="ALL_COMPLETED"):
    sim = _sim()
    fs = list(fs)
    dl = INF if timeout is None else sim.now + timeout
    if return_when == "FIRST_COMPLETED":
        sim.block("futures.wait", lambda: any(f.done() for f in fs), dl)
    else:
        sim.block("futures.wait", lambda: all(f.done() for f in fs), dl)
    done = {f for f in fs if f.done()}
    return _cf._base.DoneAndNotDoneFutures(done, set(fs) - done)


class SimThreadPoolExecutor(_cf.Executor):
    """Behavioural model of concurrent.futures.ThreadPoolExecutor: lazily created workers up to
    max_workers, FIFO queue, callbacks run in the completing thread, RuntimeError after shutdown,
    queued work still runs after shutdown(wait=...) unless cancel_futures."""

    _pool_count = 0

    def __init__(self, max_workers=None, thread_name_prefix="", initializer=None, initargs=()):
        if max_workers is None:
            max_workers = 4
        if max_workers <= 0:
            raise ValueError("max_workers must be greater than 0")
        SimThreadPoolExecutor._pool_count += 1
        self._max_workers = max_workers
        self._prefix = thread_name_prefix or f"Pool{SimThreadPoolExecutor._pool_count}-"
        self._queue: deque = deque()
        self._threads: list[SimThread] = []
        self._idle = 0
        self._shutdown = False

    def submit(self, fn, /, *args, **kwargs):
        sim = _sim()
        sim.yield_("pool.submit")
        if self._shutdown:
            raise RuntimeError("cannot schedule new futures after shutdown")
        f = _cf.Future()
        self._queue.append((f, fn, args, kwargs))
        if self._idle == 0 and len(self._threads) < self._max_workers:
            th = SimThread(target=self._worker, name=f"{self._prefix}w{len(self._threads)}")
            self._threads.append(th)
            th.start()
        return f

    def _worker(self):
        sim = _sim()
        while True:
            self._idle += 1
            sim.block("pool.idle", lambda: bool(self._queue) or self._shutdown)
            self._idle -= 1
            if not self._queue:
                if self._shutdown:
                    return
                continue
            f, fn, args, kwargs = self._queue.popleft()
            if not f.set_running_or_notify_cancel():
                continue
            try:
                result = fn(*args, **kwargs)
            except BaseException as exc:  # noqa: BLE001 - same as the stdlib worker
                from .sched import SimAbort

                if isinstance(exc, SimAbort):
                    raise
                sim.yield_("pool.set_exception")
                f.set_exception(exc)
            else:
                sim.yield_("pool.set_result")
                f.set_result(result)
            del f, fn, args, kwargs

    def shutdown(self, wait=True, *, cancel_futures=False):
        sim = _sim()
        sim.yield_("pool.shutdown")
        self._shutdown = True
        if cancel_futures:
            while self._queue:
                f, *_ = self._queue.popleft()
                f.cancel()
        if wait:
            for th in list(self._threads):
                th.join()


def make_concurrent_ns():
    futures = types.SimpleNamespace()
    for name in ("Future", "Executor", "CancelledError", "TimeoutError", "InvalidStateError",
                 "FIRST_COMPLETED", "FIRST_EXCEPTION", "ALL_COMPLETED", "as_completed"):
        setattr(futures, name, getattr(_cf, name))
    futures.ThreadPoolExecutor = SimThreadPoolExecutor
    futures.wait = sim_wait
    ns = types.SimpleNamespace()
    ns.futures = futures
    return ns


# ======================================================================================
# processes (subprocess.Popen + psutil)
# ======================================================================================


@dataclass
class ChildPlan:
    lifetime: float = INF  # seconds after the parent's start at which it exits by itself
    ignores_term: bool = False
    term_delay: float = 0.01
    # burst-placed exit races (fault kind proc_exit_race): the helper finishes by itself right
    # after it was listed by children() / right after is_running() said yes
    die_when_listed: bool = False
    die_when_checked: bool = False


@dataclass
class ProcPlan:
    duration: float = 0.01  # seconds until it exits by itself (INF = hangs)
    stdout: str = ""
    stderr: str = ""
    rc: int = 0
    ignores_term: bool = False
    term_delay: float = 0.01
    children: list[ChildPlan] = field(default_factory=list)
    spawn_error: BaseException | None = None
    partial_on_kill: str = ""  # stdout seen if it is killed before finishing


class SimStream:
    def __init__(self):
        self.closed = False

    def close(self):
        self.closed = True


class SimProc:
    """entry of the simulated process table"""

    def __init__(self, pid, cmd, plan: ProcPlan | ChildPlan, start_at, parent=None):
        self.pid = pid
        self.cmd = cmd
        self.plan = plan
        self.start_at = start_at
        self.parent = parent
        self.children: list[SimProc] = []
        self.killed_by = None  # None | 'term' | 'kill'
        if parent is None:
            self.exit_at = start_at + plan.duration
        else:
            self.exit_at = start_at + plan.lifetime
        self.reaped = False
        self.enum_failed = False

    def alive(self, now):
        if self.exit_at <= now:
            return False
        par = self.parent
        # a parent that exits by itself takes its helpers with it; a killed one orphans them
        return not (par is not None and par.killed_by is None and par.exit_at <= now)

    def exists(self, now):
        """visible to psutil: running, or a zombie that has not been waited for"""
        if self.alive(now):
            return True
        if self.parent is not None:
            return False  # children are reaped by their (simulated) parent / init at once
        return not self.reaped


class ProcTable:
    def __init__(self, sim: Sim, factory):
        self.sim = sim
        self.factory = factory  # (cmd) -> ProcPlan
        self.procs: dict[int, SimProc] = {}
        self.next_pid = 4000
        self.glitch = None  # {"kind": "IndexError" | "AccessDenied", "left": n}
        sim.timers.append(self._next_event)

    def _next_event(self):
        now = self.sim.now
        nt = None
        for p in self.procs.values():
            if p.exit_at > now and p.exit_at != INF and (nt is None or p.exit_at < nt):
                nt = p.exit_at
        return nt

    def spawn(self, cmd) -> SimProc:
        sim = self.sim
        plan = self.factory(cmd)
        if plan.spawn_error is not None:
            sim.fault("spawn_oserror")
            sim.emit("spawn-failed", cmd=_cmdkey(cmd))
            raise plan.spawn_error
        pid = self.next_pid
        self.next_pid += 1
        p = SimProc(pid, cmd, plan, sim.now)
        self.procs[pid] = p
        for cp in plan.children:
            c = SimProc(self.next_pid, cmd, cp, sim.now, parent=p)
            self.next_pid += 1
            self.procs[c.pid] = c
            p.children.append(c)
        sim.emit("proc-start", pid=pid, cmd=_cmdkey(cmd), nchildren=len(p.children))
        return p

    def signal(self, p: SimProc, sig: str):
        now = self.sim.now
        if not p.alive(now):
            return
        if sig == "kill":
            p.exit_at = now
            p.killed_by = "kill"
        elif sig == "term":
            if p.plan.ignores_term:
                self.sim.probe("sigterm_ignored")
                return
            t = now + p.plan.term_delay
            if t < p.exit_at:
                p.exit_at = t
                p.killed_by = "term"

    def alive_pids(self):
        now = self.sim.now
        return [p.pid for p in self.procs.values() if p.alive(now)]


def _cmdkey(cmd):
    try:
        return str(cmd[-1]).rsplit("/", 1)[-1]
    except Exception:  # noqa: BLE001
        return str(cmd)


PROCS: ProcTable | None = None


class SimPopen:
    def __init__(self, args, stdout=None, stderr=None, stdin=None, text=None, **kw):
        sim = _sim()
        sim.yield_("popen.enter")
        self.args = args
        self._p = PROCS.spawn(args)  # may raise OSError
        self.pid = self._p.pid
        self.returncode = None
        self.stdout = SimStream() if stdout is not None else None
        self.stderr = SimStream() if stderr is not None else None
        self.stdin = SimStream() if stdin is not None else None
        sim.yield_("popen.return")

    def _reap(self):
        p = self._p
        if self.returncode is None:
            p.reaped = True
            if p.killed_by == "term":
                self.returncode = -15
            elif p.killed_by == "kill":
                self.returncode = -9
            else:
                self.returncode = p.plan.rc
            _sim().emit("proc-reaped", pid=p.pid, rc=self.returncode)
        return self.returncode

    def poll(self):
        sim = _sim()
        sim.yield_("popen.poll")
        if self._p.alive(sim.now):
            return None
        return self._reap()

    def wait(self, timeout=None):
        sim = _sim()
        dl = INF if timeout is None else sim.now + timeout
        p = self._p
        if not sim.block("popen.wait", lambda: not p.alive(sim.now), dl):
            raise _sp.TimeoutExpired(self.args, timeout)
        return self._reap()

    def communicate(self, input=None, timeout=None):
        sim = _sim()
        dl = INF if timeout is None else sim.now + timeout
        p = self._p
        if not sim.block("popen.communicate", lambda: not p.alive(sim.now), dl):
            sim.emit("communicate-timeout", pid=p.pid)
            raise _sp.TimeoutExpired(self.args, timeout)
        self._reap()
        for s in (self.stdout, self.stderr, self.stdin):
            if s is not None:
                s.close()
        if p.killed_by is None:
            return p.plan.stdout, p.plan.stderr
        return p.plan.partial_on_kill, ""

    def terminate(self):
        PROCS.signal(self._p, "term")

    def kill(self):
        PROCS.signal(self._p, "kill")


class SimPsProcess:
    def __init__(self, pid=None, _proc=None):
        sim = _sim()
        if _proc is None:
            sim.yield_("psutil.Process")
            p = PROCS.procs.get(pid)
            g = PROCS.glitch
            if g and g["left"] > 0 and g.get("site") == "ctor" and p is not None:
                # psutil.Process(pid) reads /proc/<pid>/stat for the creation time; seen failing for real
                # with IndexError while the process is between fork and exec
                g["left"] -= 1
                sim.fault("psutil_ctor_error")
                p.enum_failed = True
                raise (IndexError("list index out of range") if g["kind"] == "IndexError"
                       else _psutil.AccessDenied(pid))
            if p is None or not p.exists(sim.now):
                sim.probe("psutil_nosuchprocess_ctor")
                raise _psutil.NoSuchProcess(pid)
            _proc = p
        self._p = _proc
        self.pid = _proc.pid

    def children(self, recursive=False):
        sim = _sim()
        sim.yield_("psutil.children")
        if not self._p.exists(sim.now):
            raise _psutil.NoSuchProcess(self.pid)
        g = PROCS.glitch
        if g and g["left"] > 0 and g.get("site") != "ctor":
            # enumeration of the process tree fails (psutil parsing /proc while processes start and exit:
            # seen for real as IndexError in psutil._pslinux.ppid_map; or AccessDenied): the helpers of this
            # solver are then unknown to halmos, the solver process itself is not
            g["left"] -= 1
            sim.fault("psutil_children_error")
            self._p.enum_failed = True
            raise (IndexError("list index out of range") if g["kind"] == "IndexError"
                   else _psutil.AccessDenied(self.pid))
        out = [SimPsProcess(_proc=c) for c in self._p.children if c.alive(sim.now)]
        for c in out:
            if getattr(c._p.plan, "die_when_listed", False):
                sim.fault("proc_exit_race")
                c._p.exit_at = sim.now
        return out

    def terminate(self):
        sim = _sim()
        sim.yield_("psutil.terminate")
        if not self._p.exists(sim.now):
            sim.probe("psutil_nosuchprocess_terminate")
            raise _psutil.NoSuchProcess(self.pid)
        sim.emit("sigterm", pid=self.pid)
        PROCS.signal(self._p, "term")

    def kill(self):
        sim = _sim()
        sim.yield_("psutil.kill")
        if not self._p.exists(sim.now):
            sim.probe("psutil_nosuchprocess_kill")
            raise _psutil.NoSuchProcess(self.pid)
        sim.emit("sigkill", pid=self.pid)
        PROCS.signal(self._p, "kill")

    def wait(self, timeout=None):
        sim = _sim()
        dl = INF if timeout is None else sim.now + timeout
        p = self._p
        if not sim.block("psutil.wait", lambda: not p.alive(sim.now), dl):
            raise _psutil.TimeoutExpired(timeout, self.pid)
        return None

    def is_running(self):
        sim = _sim()
        sim.yield_("psutil.is_running")
        r = self._p.exists(sim.now)
        if r and getattr(self._p.plan, "die_when_checked", False) and self._p.alive(sim.now):
            sim.fault("proc_exit_race")
            self._p.exit_at = sim.now
        return r


def make_psutil_ns():
    ns = types.SimpleNamespace()
    ns.Process = SimPsProcess
    for name in ("NoSuchProcess", "AccessDenied", "TimeoutExpired", "ZombieProcess", "Error"):
        setattr(ns, name, getattr(_psutil, name))
    return ns


# ======================================================================================
# time
# ======================================================================================


def make_time_ns():
    import time as _t

    ns = types.SimpleNamespace()
    ns.time = lambda: _sim().now
    ns.monotonic = lambda: _sim().now
    ns.perf_counter = lambda: _sim().now
    ns.sleep = lambda d: _sim().sleep(d, "time.sleep")
    ns.strftime = _t.strftime
    ns.localtime = _t.localtime
    return ns


def sim_timer():
    s = SIM
    return s.now if s is not None else 0.0


# ======================================================================================
# installation
# ======================================================================================


def activate(sim: Sim, proc_factory=None):
    global SIM, PROCS
    SIM = sim
    PROCS = ProcTable(sim, proc_factory) if proc_factory is not None else None
    SimThread._count = 0
    SimThreadPoolExecutor._pool_count = 0
    patch_future_class()


def deactivate():
    global SIM, PROCS
    SIM = None
    PROCS = None
    unpatch_future_class()
