"""Attach the simulated world to halmos *by identity, after import*.

The harness walks every loaded halmos.* module and rebinds any global that IS one of the listed
stdlib / third-party objects to its simulated counterpart.  No halmos source is changed and the
harness does not depend on which halmos module uses which name.
"""

from __future__ import annotations

import concurrent
import concurrent.futures
import subprocess
import sys
import threading
import time
import timeit

import psutil

from . import shims


class Seams:
    def __init__(self):
        self._undo: list[tuple[object, str, object]] = []
        self.bound: list[str] = []

    def _mapping(self, which):
        m = {}
        if "threading" in which:
            m[id(threading)] = (threading, shims.make_threading_ns())
            m[id(threading.Thread)] = (threading.Thread, shims.SimThread)
            m[id(threading.Event)] = (threading.Event, shims.SimEvent)
            m[id(threading.Lock)] = (threading.Lock, shims.SimLock)
            cns = shims.make_concurrent_ns()
            m[id(concurrent)] = (concurrent, cns)
            m[id(concurrent.futures)] = (concurrent.futures, cns.futures)
            m[id(concurrent.futures.ThreadPoolExecutor)] = (
                concurrent.futures.ThreadPoolExecutor, shims.SimThreadPoolExecutor)
            m[id(concurrent.futures.wait)] = (concurrent.futures.wait, shims.sim_wait)
        if "process" in which:
            m[id(subprocess.Popen)] = (subprocess.Popen, shims.SimPopen)
            m[id(psutil)] = (psutil, shims.make_psutil_ns())
        if "time" in which:
            m[id(time)] = (time, shims.make_time_ns())
            m[id(timeit.default_timer)] = (timeit.default_timer, shims.sim_timer)
        return m

    def attach(self, which=("threading", "process", "time"), modules_prefix="halmos",
               only: tuple[str, ...] | None = None, skip: tuple[str, ...] = ()):
        m = self._mapping(which)
        for modname, mod in sorted(sys.modules.items()):
            if mod is None or not (modname == modules_prefix or modname.startswith(modules_prefix + ".")):
                continue
            if only is not None and modname not in only:
                continue
            if modname in skip:
                continue
            d = getattr(mod, "__dict__", None)
            if d is None:
                continue
            for name, val in list(d.items()):
                ent = m.get(id(val))
                if ent is not None and ent[0] is val:
                    self._undo.append((mod, name, val))
                    setattr(mod, name, ent[1])
                    self.bound.append(f"{modname}.{name}")
        return self

    def patch(self, obj, name, new):
        self._undo.append((obj, name, getattr(obj, name)))
        setattr(obj, name, new)

    def detach(self):
        for obj, name, val in reversed(self._undo):
            setattr(obj, name, val)
        self._undo.clear()
