"""hsim - deterministic simulation kernel for halmos (see /verif/DESIGN.md)."""
