"""One choice stream per run.

Every decision of a simulated run (workload shape, swarm configuration, which task runs next,
every delay, every fault) is drawn through one Choices object.  In generate mode it draws from
random.Random(seed) and records the value; in replay mode it consumes a recorded list.  A value
that is out of range is reduced modulo n and an exhausted list yields 0, which by convention is
always the simplest alternative (no fault / first runnable task / smallest program), so a shrunk
choice list is always a valid run.

Labels are for humans only: they never influence a draw.  Nothing in here reads a clock.
"""

from __future__ import annotations

import hashlib
import random


class Choices:
    __slots__ = ("seed", "rng", "replay", "pos", "record", "labels", "keep_labels", "overrun")

    def __init__(self, seed: int | None = None, replay: list[int] | None = None,
                 keep_labels: bool = False):
        self.seed = seed
        self.rng = random.Random(seed) if replay is None else None
        self.replay = list(replay) if replay is not None else None
        self.pos = 0
        self.record: list[int] = []
        self.labels: list[str] | None = [] if keep_labels else None
        self.overrun = 0  # draws answered with 0 because the replay list was exhausted

    # -- primitive -----------------------------------------------------------------------
    def pick(self, n: int, label: str = "") -> int:
        """an integer in [0, n); 0 is the 'simplest' alternative"""
        if n <= 1:
            # still recorded so that positions stay aligned when n changes between runs
            v = 0
        elif self.replay is not None:
            if self.pos < len(self.replay):
                v = self.replay[self.pos] % n
            else:
                v = 0
                self.overrun += 1
        else:
            v = self.rng.randrange(n)
        self.pos += 1
        self.record.append(v)
        if self.labels is not None:
            self.labels.append(f"{label}:{v}/{n}")
        return v

    # -- derived -------------------------------------------------------------------------
    def chance(self, p: float, label: str = "") -> bool:
        """True with probability p when generating; recorded as 0/1 (1 = the unusual event)"""
        if p <= 0.0:
            return False
        if self.replay is not None:
            return bool(self.pick(2, label))
        hit = self.rng.random() < p
        self.pos += 1
        self.record.append(1 if hit else 0)
        if self.labels is not None:
            self.labels.append(f"{label}:{int(hit)}/p={p}")
        return hit

    def int(self, lo: int, hi: int, label: str = "") -> int:
        """an integer in [lo, hi]; lo is the simplest"""
        return lo + self.pick(hi - lo + 1, label)

    def choose(self, seq, label: str = ""):
        return seq[self.pick(len(seq), label)]

    def weighted(self, weights: list[int], label: str = "") -> int:
        """index drawn with the given integer weights; index 0 is the simplest"""
        total = sum(weights)
        if self.replay is not None:
            return self.pick(len(weights), label)
        r = self.rng.randrange(total)
        acc = 0
        idx = 0
        for i, w in enumerate(weights):
            acc += w
            if r < acc:
                idx = i
                break
        self.pos += 1
        self.record.append(idx)
        if self.labels is not None:
            self.labels.append(f"{label}:{idx}/w{len(weights)}")
        return idx

    def bits(self, nbits: int, label: str = "") -> int:
        """a value of nbits bits, biased towards boundary values; 0 is the simplest"""
        kind = self.pick(6, label + ".k")
        if kind == 0:
            return 0
        if kind == 1:
            return self.pick(4, label + ".s")
        if kind == 2:
            return (1 << nbits) - 1 - self.pick(3, label + ".m")
        if kind == 3:
            sh = self.pick(nbits, label + ".sh")
            return ((1 << sh) - 1 + self.pick(3, label + ".d")) & ((1 << nbits) - 1)
        # random
        v = 0
        for i in range(0, nbits, 32):
            v |= self.pick(1 << 32, label + ".r") << i
        return v & ((1 << nbits) - 1)

    def shuffle(self, seq: list, label: str = "") -> list:
        out = list(seq)
        for i in range(len(out) - 1, 0, -1):
            j = i - self.pick(i + 1, label)  # 0 => keep in place (identity is the simplest)
            out[i], out[j] = out[j], out[i]
        return out


def derive_seed(*parts) -> int:
    h = hashlib.sha256(repr(parts).encode()).digest()
    return int.from_bytes(h[:8], "big")
