"""run-sim: halmos' run_contract on hand-assembled artifacts, with every source of nondeterminism behind
a seam owned by one seeded scheduler:

  threads (ThreadPoolExecutor workers, per-job PopenFuture threads, done-callbacks)  -> baton scheduler
  external solver processes (spawn, latency, reply, exit status)                      -> simulated process table;
        the truthful reply is what the real solver binary says about the very file halmos wrote
  clocks / sleeps / timeouts                                                           -> simulated clock
  fresh-symbol suffixes (uuid4)                                                        -> choice stream
  the dump directory (write_text / open for the .out files)                            -> fs fault seam

The run returns the TestResults plus a recorded history (queries, replies, log records, stdout).
"""

from __future__ import annotations

import contextlib
import gc
import hashlib
import io
import os
import re
import shutil
import subprocess as _real_subprocess
import tempfile
import uuid
import weakref

from . import shims
from .sched import INF, Sim
from .seams import Seams

YICES = ["/venv/bin/yices-smt2", "--smt2-model-format", "--bvconst-in-decimal"]
Z3BIN = ["/venv/bin/z3"]

_truth_cache: dict[tuple, tuple] = {}


def truthful_reply(text: str, solver: str) -> tuple[str, str, int]:
    """what the real solver binary prints for this query text (cached per worker process)"""
    key = (solver, hashlib.sha1(text.encode()).hexdigest())
    r = _truth_cache.get(key)
    if r is None:
        d = tempfile.mkdtemp(prefix="truth-", dir="/dev/shm" if os.path.isdir("/dev/shm") else None)
        try:
            f = os.path.join(d, "q.smt2")
            with open(f, "w") as fh:
                fh.write(text)
            cmd = (YICES if solver == "yices" else Z3BIN) + [f]
            try:
                p = _real_subprocess.run(cmd, capture_output=True, text=True, timeout=10)
                r = (p.stdout, p.stderr, p.returncode)
            except _real_subprocess.TimeoutExpired:
                # a wall-clock event: the run that meets it is reported as inconclusive, never judged
                return ("unknown\n", "truthful solver exceeded the harness wall limit", -99)
        finally:
            shutil.rmtree(d, ignore_errors=True)
        if len(_truth_cache) > 2000:
            _truth_cache.clear()
        _truth_cache[key] = r
    return r


# reply kinds (fault taxonomy of DESIGN.md appendix B)
REPLY_KINDS = ["truth", "unknown", "hang", "crash_empty", "crash_partial", "garbage", "error_line", "rc_nonzero_valid",
               "spawn_oserror", "slow"]


class SolverStub:
    """the simulated external solver: decides, per spawned process, duration and reply"""

    def __init__(self, sim: Sim, ch, *, solver="yices", plan=None, fault_rate=0.0, kinds=None, latency=True):
        self.sim = sim
        self.ch = ch
        self.solver = solver
        self.plan = plan  # callable(info) -> reply kind | None (None = sample / truth)
        self.fault_rate = fault_rate
        self.kinds = kinds or REPLY_KINDS[1:]
        self.latency = latency
        self.history: list[dict] = []
        self.wall_timeouts = 0

    def factory(self, cmd):
        sim = self.sim
        path = str(cmd[-1])
        base = os.path.basename(path)
        try:
            with open(path) as fh:
                text = fh.read()
        except OSError as e:
            text = None
            read_err = e
        info = {"file": base, "seq": len(self.history), "refined": ".refined." in base, "text": text,
                "path_id": base.split(".")[0]}
        if text is None:
            so, se, rc = ("", f"cannot open {base}: {read_err}", 1)
            truth_first = "err"
        else:
            so, se, rc = truthful_reply(text, self.solver)
            truth_first = so.split("\n", 1)[0].strip()
        info["truth"] = truth_first
        if rc == -99:
            self.wall_timeouts += 1
        info["truth_stdout"] = so
        kind = self.plan(info) if self.plan is not None else None
        if kind is None:
            kind = "truth"
            if self.fault_rate and self.ch.chance(self.fault_rate, "solver.fault"):
                kind = self.ch.choose(self.kinds, "solver.kind")
        dur = 0.01
        if self.latency:
            dur = self.ch.choose([0.01, 0.001, 0.2, 1.5, 7.0], "solver.dur")
        plan = shims.ProcPlan(duration=dur, stdout=so, stderr=se, rc=rc)
        if truth_first == "sat" and "f_evm_" in so:
            # a solver killed while it prints has flushed a prefix: here everything before the first abstraction function
            # (z3 prints functions last), i.e. an answer that looks like a complete model of the parameters
            cut = so.index("f_evm_")
            plan.partial_on_kill = so[: so.rfind("\n", 0, cut) + 1]
        if kind == "unknown":
            plan.stdout, plan.stderr = "unknown\n", ""
        elif kind == "hang":
            plan.duration = INF
            plan.partial_on_kill = ""
        elif kind == "slow":
            plan.duration = ([61.0, 600.0][info["param"] % 2] if "param" in info
                             else self.ch.choose([30.0, 59.0, 61.0, 600.0], "solver.slow"))
        elif kind == "crash_empty":
            plan.stdout, plan.stderr, plan.rc = "", "Segmentation fault", -11
        elif kind == "crash_partial":
            cut = (info["param"] % max(len(so), 1)) if "param" in info else self.ch.pick(max(len(so), 1), "solver.cut")
            plan.stdout, plan.stderr, plan.rc = so[:cut], "Killed", -9
            info["cut"] = cut
        elif kind == "garbage":
            plan.stdout, plan.stderr, plan.rc = "\x7fELF\x02\x01\x01 not a solver\n", "", 0
        elif kind == "error_line":
            plan.stdout, plan.stderr, plan.rc = '(error "line 1 column 1: unknown option")\n', "", 1
        elif kind == "rc_nonzero_valid":
            plan.rc = 3
        elif kind == "spawn_oserror":
            plan.spawn_error = OSError(11, "Resource temporarily unavailable")
        elif kind.startswith("stdout:"):
            plan.stdout = kind[len("stdout:"):]
        if kind != "truth":
            sim.fault("solver_" + kind.split(":")[0])
        info["kind"] = kind
        info["stdout"] = plan.stdout
        info["duration"] = plan.duration
        info.pop("text")
        info["text_sha"] = hashlib.sha1((text or "").encode()).hexdigest()[:12]
        info["text_len"] = len(text or "")
        self.history.append(info)
        self.last_text = text
        self.on_query(info, text)
        return plan

    def on_query(self, info, text):  # hook for monitors (C11 / C16)
        pass


_DECL = re.compile(r"\(declare-fun (f_evm_(bvmul|bvudiv|bvurem|bvsdiv|bvsrem)_(\d+)) \(\(_ BitVec (\d+)\) \(_ BitVec (\d+)\)\) \(_ BitVec (\d+)\)\)")


def truncated_core(stdout: str) -> str | None:
    """what is left of an `unsat` + unsat-core answer if the solver dies while printing the core: the first name complete, the
    second one cut, no closing parenthesis.  None if the core has fewer than two names."""
    m = re.search(r"unsat\s*(\(\s*error[^)]*\)\s*)?\(\s*(<[0-9]+>)\s*(<[0-9]+>)", stdout)
    if not m:
        return None
    return stdout[: m.end(2)] + " " + m.group(3)[: max(2, len(m.group(3)) // 2)]


def reference_refine(text: str) -> str:
    """independent statement of what refinement must do: every mul/div/rem abstraction becomes its exact EVM
    operation (division and remainder by zero are zero)"""

    def rep(m):
        name, op, n = m.group(1), m.group(2), m.group(3)
        bv = f"(_ BitVec {n})"
        body = "(bvmul x y)" if op == "bvmul" else f"(ite (= y (_ bv0 {n})) (_ bv0 {n}) ({op} x y))"
        return f"(define-fun {name} ((x {bv}) (y {bv})) {bv} {body})"

    return _DECL.sub(rep, text)


class CacheMonitor:
    """observes halmos.solve.check_unsat_cores: every query answered `unsat` from the unsat-core cache is
    re-solved by the truthful solver (the text is what halmos would have dumped for it)"""

    def __init__(self, solver="yices"):
        self.solver = solver
        self.hits: list[dict] = []
        self.calls = 0
        self._orig = None

    def install(self):
        import halmos.solve as hs

        mon = self
        self._orig = hs.check_unsat_cores

        def check_unsat_cores(query, unsat_cores):
            mon.calls += 1
            r = mon._orig(query, unsat_cores)
            if r:
                named = "".join(f"(assert (! |{i}| :named <{i}>))\n" for i in query.assertions)
                text = ("(set-option :produce-unsat-cores true)\n(set-logic QF_AUFBV)\n"
                        f"{query.smtlib}\n{named}(check-sat)\n(get-model)\n")
                so, se, rc = truthful_reply(text, mon.solver)
                if so.startswith("sat") and "f_evm_" in so:
                    # the model leans on an arithmetic abstraction: the truth is what the exact semantics says
                    so, se, rc = truthful_reply(reference_refine(text), mon.solver)
                mon.hits.append(dict(truth=so.split("\n", 1)[0].strip(), wall_timeout=rc == -99,
                                     n_cores=len(unsat_cores), n_assertions=len(query.assertions),
                                     empty_core=any(len(c) == 0 for c in unsat_cores)))
            return r

        hs.check_unsat_cores = check_unsat_cores
        return self

    def remove(self):
        if self._orig is not None:
            import halmos.solve as hs

            hs.check_unsat_cores = self._orig
            self._orig = None


class FsSeam:
    """N8: the dump directory.  plan(path, kind) -> None | 'enospc' | 'eio' | ('short', n) decides what happens to a write of
    halmos.solve: dump_file.write_text(query) (kind 'query') and open(<query>.out / .err, 'w') (kind 'out')"""

    def __init__(self, sim, plan=None):
        self.sim = sim
        self.plan = plan
        self._undo = []

    def install(self):
        if self.plan is None:
            return self
        import builtins
        import errno
        import pathlib

        import halmos.solve as hs

        seam = self
        orig_write_text = pathlib.Path.write_text

        def write_text(path_self, data, *a, **kw):
            act = seam.plan(str(path_self), "query") if str(path_self).endswith(".smt2") else None
            if act == "enospc":
                seam.sim.fault("fs_enospc")
                raise OSError(errno.ENOSPC, "No space left on device", str(path_self))
            if act == "eio":
                seam.sim.fault("fs_eio")
                raise OSError(errno.EIO, "Input/output error", str(path_self))
            if isinstance(act, tuple) and act[0] == "short":
                seam.sim.fault("fs_short_write")
                data = data[: act[1] % max(len(data), 1)]  # a torn write nobody reported
            return orig_write_text(path_self, data, *a, **kw)

        pathlib.Path.write_text = write_text
        self._undo.append((pathlib.Path, "write_text", orig_write_text))

        def open_(file, mode="r", *a, **kw):
            if "w" in mode and str(file).endswith((".out", ".err")):
                act = seam.plan(str(file), "out")
                if act in ("eio", "enospc"):
                    seam.sim.fault("fs_out_" + act)
                    raise OSError(errno.EIO if act == "eio" else errno.ENOSPC, "write failed", str(file))
            return builtins.open(file, mode, *a, **kw)

        hs.open = open_  # a module global shadows the builtin inside halmos.solve only
        self._undo.append((hs, "open", None))

        # the <dump dir>-timeout / -error directories halmos.__main__ creates for failed queries (kind 'debugdir')
        import halmos.__main__ as hm

        real_os = hm.os

        class OsProxy:
            def __getattr__(self, name):
                return getattr(real_os, name)

            def makedirs(self, path, *a, **kw):
                if str(path).endswith(("-timeout", "-error")) and seam.plan(str(path), "debugdir"):
                    seam.sim.fault("fs_debugdir_enospc")
                    raise OSError(errno.ENOSPC, "No space left on device", str(path))
                return real_os.makedirs(path, *a, **kw)

        hm.os = OsProxy()
        self._undo.append((hm, "os", real_os))
        return self

    def remove(self):
        for obj, name, val in reversed(self._undo):
            if val is None:
                try:
                    delattr(obj, name)
                except AttributeError:
                    pass
            else:
                setattr(obj, name, val)
        self._undo.clear()


class UidSeam:
    def __init__(self, ch, mode="random"):
        self.ch = ch
        self.mode = mode
        self.n = 0
        self._orig = None

    def install(self):
        seam = self
        self._orig = uuid.uuid4

        class _U:
            def __init__(self, h):
                self.hex = h

        def uuid4():
            seam.n += 1
            if seam.mode == "sequential":
                return _U(f"{seam.n:07x}" + "0" * 25)
            if seam.mode == "repeat":
                return _U("abcdef0" + "0" * 25)
            return _U(f"{seam.ch.pick(1 << 28, 'uid'):07x}" + "0" * 25)

        uuid.uuid4 = uuid4
        return self

    def remove(self):
        if self._orig is not None:
            uuid.uuid4 = self._orig
            self._orig = None


def make_args(_config_file=None, **options):
    """options as given on the command line; `_config_file`: options given in the config file instead (lower precedence than
    contract / function annotations)"""
    from halmos.config import ConfigSource, default_config

    base = dict(solver_command="simsolver", no_status=True, verbose=0, solver_timeout_branching=0,
                solver_timeout_assertion=60, solver_threads=2, loop=2, storage_layout="solidity")
    base.update(options)
    cfg = default_config()
    if _config_file:
        for k in _config_file:
            base.pop(k, None)
        cfg = cfg.with_overrides(ConfigSource.config_file, **_config_file)
    return cfg.with_overrides(ConfigSource.command_line, **base)


def make_contract_ctx(args, name, file, cj, funsigs, bom):
    from halmos.calldata import get_abi
    from halmos.solve import ContractContext

    return ContractContext(
        args=args, name=name, funsigs=list(funsigs),
        creation_hexcode=cj["bytecode"]["object"][2:], deployed_hexcode=cj["deployedBytecode"]["object"][2:],
        abi=get_abi(cj), method_identifiers=cj["methodIdentifiers"], contract_json=cj, libs={}, build_out_map=bom)


class RunSimResult:
    def __init__(self):
        self.results = None
        self.exception = None
        self.stdout = ""
        self.warnings: list[str] = []
        self.sim: Sim | None = None
        self.stub: SolverStub | None = None
        self.outcome = None
        self.observed: dict = {}
        self.alive_procs: list = []  # simulated processes still alive when the simulation ended: (pid, cmd key, would exit at)


class OrderedWeakSet:
    """Stand-in for the WeakSet of halmos' ExecutorRegistry: same interface, but membership and iteration order depend neither
    on when the cyclic gc happened to run nor on object addresses (both vary with process history and would make the number of
    shutdown steps - and with it the landing point of an injected signal - differ between two executions of one seed)."""

    def __init__(self):
        self._refs = []

    def add(self, x):
        if not any(r() is x for r in self._refs):
            self._refs.append(weakref.ref(x))

    def discard(self, x):
        self._refs = [r for r in self._refs if r() is not None and r() is not x]

    remove = discard

    def clear(self):
        self._refs = []

    def _live(self):
        gc.collect()  # membership = executors that are still reachable, not "not collected yet"
        self._refs = [r for r in self._refs if r() is not None]
        return [r() for r in self._refs]

    def __iter__(self):
        return iter(self._live())

    def __len__(self):
        return len(self._live())

    def __contains__(self, x):
        return any(r() is x for r in self._refs)


def reset_halmos_globals():
    """each simulated run stands for one fresh halmos process"""
    import logging

    import halmos.processes as hp

    for flt in logging.getLogger("halmos.unique").filters:
        if hasattr(flt, "records"):
            flt.records.clear()
    reg = hp.ExecutorRegistry()
    reg._executors = OrderedWeakSet()


def run_under_sim(ch, main_fn, *, solver="yices", plan=None, fault_rate=0.0, kinds=None, preempt_k=0,
                  uid_mode="random", max_steps=60000, keep_log=False, latency=True, stub_cls=SolverStub,
                  fresh=True, tmp_prefix="runsim-", unknown_rate=0.0, gc_rate=0.0, fs_plan=None,
                  interrupt=None) -> RunSimResult:
    """run main_fn() (which calls into halmos) as the main task of a simulation"""
    from .engine import LogCapture

    out = RunSimResult()
    sim = Sim(ch, max_steps=max_steps, preempt_k=preempt_k,
              trace_files=("halmos/processes.py", "halmos/solve.py", "halmos/__main__.py") if preempt_k else (),
              keep_log=keep_log)
    stub = stub_cls(sim, ch, solver=solver, plan=plan, fault_rate=fault_rate, kinds=kinds, latency=latency)
    out.sim, out.stub = sim, stub
    for steps_, handler_ in (interrupt or []):
        # (steps, handler): a signal handler run on the main task's stack at one of its call-boundary scheduling points
        sim.set_interrupt("main", steps_, handler_)
    seams = Seams()
    uid = UidSeam(ch, uid_mode)
    from .engine import EngineSeams

    eseam = EngineSeams(ch, unknown_rate=unknown_rate, gc_rate=gc_rate, record_pruned=False, patch_uid=False)
    cmon = CacheMonitor(solver)
    out.cache = cmon
    fs = FsSeam(sim, fs_plan)
    tmpdir = tempfile.mkdtemp(prefix=tmp_prefix, dir="/dev/shm" if os.path.isdir("/dev/shm") else None)
    old_tmp = tempfile.tempdir
    buf = io.StringIO()
    if fresh:
        reset_halmos_globals()
    try:
        tempfile.tempdir = tmpdir
        shims.activate(sim, stub.factory)
        seams.attach()
        uid.install()
        eseam.install()
        out.eseam = eseam
        cmon.install()
        fs.install()
        with LogCapture(fresh=fresh) as lc, contextlib.redirect_stdout(buf):
            def main():
                try:
                    out.results = main_fn()
                except BaseException as e:  # noqa: BLE001
                    if type(e).__name__ == "SimAbort":
                        raise
                    out.exception = e
            sim.run(main)
        out.warnings = lc.records
        with contextlib.suppress(Exception):
            out.alive_procs = [(p.pid, str(p.cmd[-1]).rsplit("/", 1)[-1], p.exit_at) for p in shims.PROCS.procs.values()
                               if p.alive(sim.now) and p.exit_at > sim.now + 1.0]
    finally:
        fs.remove()
        cmon.remove()
        eseam.remove()
        uid.remove()
        seams.detach()
        shims.deactivate()
        tempfile.tempdir = old_tmp
        shutil.rmtree(tmpdir, ignore_errors=True)
    out.stdout = buf.getvalue()
    out.outcome = sim.outcome
    return out


ANSI = re.compile(r"\x1b\[[0-9;]*m")


def verdict_lines(stdout: str) -> dict:
    """{funsig: 'PASS'|'FAIL'|'ERROR'|'TIMEOUT'} parsed from what halmos printed"""
    out = {}
    for line in ANSI.sub("", stdout).splitlines():
        m = re.match(r"^\[(PASS|FAIL|ERROR|TIMEOUT)\] (\S+\))", line.strip())
        if m:
            out[m.group(2)] = m.group(1)
    return out
