#!/venv/bin/python
"""Confirm a candidate breaking change (patch.diff + demo.py) in a scratch worktree of /repo's HEAD:
patch applies, pinned suite still 306 passed / same 8 failures, demo exits 0 without and non-zero with the patch.
usage: verify_seeded.py <candidate dir> <property id> <name> [--keep]   -> writes /verif/seeded/<name>/"""
import json, os, shutil, subprocess, sys, tempfile

cand, prop, name = sys.argv[1:4]
wt = tempfile.mkdtemp(prefix="seedv-", dir="/tmp")
os.rmdir(wt)
run = lambda *a, **k: subprocess.run(*a, capture_output=True, text=True, **k)
assert run(["git", "-C", "/repo", "worktree", "add", "--detach", wt, "HEAD"]).returncode == 0
env = dict(os.environ, PYTHONPATH=wt + "/src", PYTHONDONTWRITEBYTECODE="1")
res = {"property": prop, "name": name, "repo_head": run(["git", "-C", "/repo", "rev-parse", "--short", "HEAD"]).stdout.strip()}
try:
    patch = os.path.join(cand, "patch.diff")
    demo = os.path.abspath(os.path.join(cand, "demo.py"))
    d0 = run(["timeout", "600", "/venv/bin/python", demo], env=env, cwd=cand)
    res["demo_clean_exit"] = d0.returncode
    ap = run(["git", "-C", wt, "apply", "--3way", patch])
    if ap.returncode != 0:
        ap = run(["git", "-C", wt, "apply", patch])
    res["applies"] = ap.returncode == 0
    res["apply_msg"] = (ap.stderr or "")[-300:]
    if res["applies"]:
        t = run(["timeout", "900", "/venv/bin/python", "-m", "pytest", "-q", "-p", "no:cacheprovider", "--timeout=900",
                 "--continue-on-collection-errors"], env=env, cwd=wt)
        res["suite_tail"] = t.stdout.strip().splitlines()[-1] if t.stdout.strip() else t.stderr[-200:]
        d1 = run(["timeout", "600", "/venv/bin/python", demo], env=env, cwd=cand)
        res["demo_patched_exit"] = d1.returncode
        res["demo_patched_tail"] = (d1.stdout + d1.stderr).strip()[-600:]
        res["patch_vs_head"] = run(["git", "-C", wt, "diff", "HEAD"]).stdout
    ok = res.get("applies") and res["demo_clean_exit"] == 0 and res.get("demo_patched_exit", 0) != 0 and "306 passed" in res.get("suite_tail", "")
    res["confirmed"] = bool(ok)
finally:
    run(["git", "-C", "/repo", "worktree", "remove", "--force", wt])
print(json.dumps({k: v for k, v in res.items() if k != "patch_vs_head"}, indent=1))
if res.get("confirmed"):
    out = f"/verif/seeded/{name}"
    os.makedirs(out, exist_ok=True)
    with open(out + "/patch.diff", "w") as f:
        f.write(res.pop("patch_vs_head"))
    shutil.copy(demo, out + "/demo.py")
    notes = os.path.join(cand, "NOTES.md")
    if os.path.exists(notes):
        shutil.copy(notes, out + "/NOTES.md")
    res["needs"] = "see NOTES.md"
    res["ran"] = ["git apply patch.diff in a scratch worktree of /repo HEAD", "pytest -q -p no:cacheprovider --timeout=900 --continue-on-collection-errors (PYTHONPATH=<worktree>/src)", "python demo.py with and without the patch"]
    with open(out + "/meta.json", "w") as f:
        json.dump(res, f, indent=1)
