#!/bin/bash
# runs every registered quick command on /repo as it is, validates each evidence file against the schema
cd /verif
for id in $(python3-vt -c "import json;print(' '.join(c['property_id'] for c in json.load(open('MANIFEST.json'))['checks']))"); do
  rm -f evidence/$id.json
  t0=$(date +%s)
  out=$(./check $id quick 2>&1); rc=$?
  t1=$(date +%s)
  echo "$id exit=$rc $((t1-t0))s $(echo "$out" | grep -E '^\[' | cut -c1-160)"
  echo "$out" | grep -E "^VIOLATION|^HARNESS|^KNOWN" | cut -c1-200
  python3-vt -c "
import json,jsonschema
jsonschema.validate(json.load(open('/verif/evidence/$id.json')),json.load(open('/root/.vp/EVIDENCE.schema.json')))" || echo "$id EVIDENCE INVALID"
done
