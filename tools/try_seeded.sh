#!/bin/bash
# usage: try_seeded.sh <seeded-name> <check-id> [budget_s] [tier]   one check against a scratch copy of /repo/src with one seeded change applied
n="$1"; id="$2"; budget="${3:-45}"; tier="${4:-quick}"
d=/verif/seeded/$n
scratch=$(mktemp -d /dev/shm/seeded-XXXXXX)
cp -r /repo/src "$scratch/src"
(cd "$scratch" && patch -s -p1 < "$d/patch.diff") || { echo PATCH-FAILED; rm -rf "$scratch"; exit 3; }
cd /verif && VERIF_REPO_SRC="$scratch/src" timeout 3000 ./check "$id" "$tier" --budget "$budget" 2>&1 | grep -E "^\[|^VIOLATION|signature=|detail|HARNESS|probes" | cut -c1-1200
rm -rf "$scratch"
