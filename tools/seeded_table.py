#!/venv/bin/python
"""usage: seeded_table.py SWEEP-file [name-pattern]  - the DESIGN.md table of seeded changes from a sweep output and the meta files"""
import fnmatch
import json
import os
import sys

sweep = sys.argv[1]
pat = sys.argv[2] if len(sys.argv) > 2 else "*"
rows = {}
for line in open(sweep):
    parts = line.split()
    if len(parts) < 3:
        continue
    name, check, status = parts[:3]
    sigs = [p for p in parts[3:] if ":" in p and not p.startswith("runs=")]
    rows.setdefault(name, []).append((check, status, sigs))
print("| change | what it needs to manifest | caught by | first signature | missed by |")
print("|---|---|---|---|---|")
for name in sorted(rows):
    if not fnmatch.fnmatch(name, pat):
        continue
    meta = json.load(open(os.path.join("/verif/seeded", name, "meta.json")))
    caught = [c for c, s, _ in rows[name] if s == "CAUGHT"]
    missed = [c for c, s, _ in rows[name] if s != "CAUGHT"]
    first = next((sg[0] for c, s, sg in rows[name] if s == "CAUGHT" and sg), "")
    print(f"| {name} | {meta.get('needs', '')} | {', '.join(caught) or '**none at this budget**'} | `{first}` | {', '.join(missed)} |")
