#!/venv/bin/python
"""Determinism self-test: every seed is run twice (different batches / fork positions), at two
worker counts, and once more in a fresh interpreter under another PYTHONHASHSEED; the event-log
digests, violation signatures and choice-list lengths must agree pairwise.

usage: tools/determinism.py <ID> [--seeds N] [--base SEED]
"""

from __future__ import annotations

import argparse
import importlib
import json
import os
import subprocess
import sys

HERE = os.path.dirname(os.path.dirname(os.path.abspath(__file__)))
sys.path.insert(0, HERE)

from hsim.choices import derive_seed  # noqa: E402
from hsim.runner import Pool, signature  # noqa: E402


def collect(check, seeds, njobs, per_fork):
    pool = Pool(check, njobs, 120)
    out = {}
    try:
        jobs = [(i, s, None, False, None) for i, s in enumerate(seeds)]
        for k in range(0, len(jobs), per_fork):
            while pool.full():
                for r in pool.reap(True):
                    out[r["seed"]] = r
            pool.submit(jobs[k:k + per_fork])
        for r in pool.drain():
            out[r["seed"]] = r
    finally:
        pool.close()
    return {s: summary(r) for s, r in out.items()}


def summary(r):
    if "harness_error" in r:
        return ("HARNESS-ERROR", r["harness_error"])
    return (r.get("digest"), sorted(signature(v) for v in r.get("violations", [])), r.get("choices_len"),
            r.get("inconclusive"))


def main():
    ap = argparse.ArgumentParser()
    ap.add_argument("id")
    ap.add_argument("--seeds", type=int, default=200)
    ap.add_argument("--base", type=int, default=777)
    ap.add_argument("--child", action="store_true")
    ap.add_argument("--module")
    ap.add_argument("--out")
    a = ap.parse_args()
    modname = a.module or f"checks.{a.id.lower()}"
    mod = importlib.import_module(modname)
    check = mod.factory()
    check.prepare()
    seeds = [derive_seed(a.base, "det", i) for i in range(a.seeds)]
    if a.child:
        res = collect(check, seeds, 16, 7)
        with open(a.out, "w") as f:
            json.dump({str(k): v for k, v in res.items()}, f)
        return 0
    r1 = collect(check, seeds, 16, 5)
    r2 = collect(check, list(reversed(seeds)), 3, 1)
    env = dict(os.environ, PYTHONHASHSEED="12345")
    outf = f"/dev/shm/det-{os.getpid()}.json"
    p = subprocess.run([sys.executable, os.path.abspath(__file__), a.id, "--seeds", str(a.seeds), "--base",
                        str(a.base), "--child", "--out", outf] + (["--module", a.module] if a.module else []),
                       capture_output=True, text=True, env=env, timeout=3600)
    if p.returncode != 0:
        print(p.stderr[-3000:])
        print("DETERMINISM: child interpreter failed")
        return 2
    with open(outf) as f:
        r3 = {int(k): tuple(v) if isinstance(v, list) else v for k, v in json.load(f).items()}
    os.unlink(outf)
    bad = 0
    errs = 0
    skipped = 0
    for s in seeds:
        a1, a2, a3 = r1.get(s), r2.get(s), r3.get(s)
        a3 = tuple(a3) if a3 is not None else None
        n1 = json.dumps(a1)
        n2 = json.dumps(a2)
        n3 = json.dumps(a3)
        if a1 and a1[0] == "HARNESS-ERROR":
            errs += 1
        wall = any(x is not None and len(x) > 3 and x[3] == "truthful-solver-wall-timeout" for x in (a1, a2, a3))
        if wall:
            skipped += 1  # a real solver binary exceeded the harness' wall limit in one execution: not a replayable run
            continue
        if not (n1 == n2 == n3):
            bad += 1
            if bad <= 5:
                print(f"seed {s}:\n  A {n1}\n  B {n2}\n  C {n3}")
    print(f"DETERMINISM {a.id}: {len(seeds)} seeds x 3 executions (16 jobs/5 per fork; 3 jobs/1 per fork reversed order; "
          f"fresh interpreter PYTHONHASHSEED=12345 16 jobs/7 per fork): {bad} divergent, {errs} harness errors, {skipped} skipped (wall-clock solver limit)")
    return 0 if bad == 0 and errs == 0 else 2


if __name__ == "__main__":
    sys.exit(main())
