#!/bin/bash
# usage: run_seeded.sh <patch file> <budget_s> <check id>...   applies the patch to /repo, runs the checks, reverts.
patch="$1"; budget="$2"; shift 2
cd /repo || exit 2
if ! git diff --quiet; then echo "/repo has uncommitted changes"; exit 2; fi
git apply "$patch" || { echo "patch does not apply"; exit 2; }
trap 'git -C /repo checkout -- .' EXIT
cd /verif
for id in "$@"; do
  echo "=== $id with $(basename $(dirname $patch))"
  timeout 1800 ./check "$id" quick --budget "$budget" 2>&1 | grep -E "^\[|^VIOLATION|^KNOWN|^HARNESS|signature=|detail:" | cut -c1-400
done
