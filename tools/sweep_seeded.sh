#!/bin/bash
# usage: sweep_seeded.sh <budget_s> [name-pattern]   runs, for every /verif/seeded/<Pxx-mN>, the check of its own property (and a few
# neighbours) against a scratch copy of /repo/src with the change applied; /repo itself is not touched.
budget="${1:-45}"; pat="${2:-}"
out="${3:-/verif/seeded/SWEEP.txt}"
: > "$out.tmp"
declare -A EXTRA=( [C01]="C09" [C02]="C01 C09" [C03]="C16 C20" [C04]="C05" [C05]="C16" [C08]="C20" [C09]="C01 C02" [C10]="" [C11]="C16" [C13]="" [C14]="C20 C02" [C15]="" [C16]="C05" [C17]="C05" [C20]="C03 C02" )
for d in /verif/seeded/*/; do
  n=$(basename "$d"); [ -f "$d/patch.diff" ] || continue
  [ -n "$pat" ] && [[ "$n" != $pat ]] && continue
  p=${n%-*}
  scratch=$(mktemp -d /dev/shm/seeded-XXXXXX)
  cp -r /repo/src "$scratch/src"
  if ! (cd "$scratch" && patch -s -p1 < "$d/patch.diff"); then echo "$n PATCH-FAILED" >> "$out.tmp"; rm -rf "$scratch"; continue; fi
  for id in $p ${EXTRA[$p]}; do
    res=$(cd /verif && VERIF_REPO_SRC="$scratch/src" timeout 1500 ./check "$id" quick --budget "$budget" 2>&1 | grep -E "^\[|^VIOLATION|signature=" )
    sigs=$(echo "$res" | grep -o "signature=[^ ]*" | sed 's/signature=//' | sort -u | tr '\n' ' ')
    runs=$(echo "$res" | grep -o "runs=[0-9]*" | head -1)
    if echo "$res" | grep -q "^VIOLATION"; then echo "$n $id CAUGHT $runs $sigs" >> "$out.tmp"; else echo "$n $id missed $runs" >> "$out.tmp"; fi
  done
  rm -rf "$scratch"
done
mv "$out.tmp" "$out"
